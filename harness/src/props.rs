//! Per-property session streams (generators + bounded-exhaustive enumerations)
//! and the model-free metamorphic checks.

use crate::call::Call;
use crate::exec::{Op, Session};
use crate::gen::{self, Rng};

fn focus_of(prop: &str) -> &'static str {
    match prop {
        "C04" => "draw",
        "C05" => "move",
        "C06" => "scroll",
        "C07" => "erase",
        "C08" => "sgr",
        "C10" => "display",
        "C12" => "mode",
        "C13" => "ichdch",
        "C14" => "save",
        "C16" => "resize",
        "C18" => "tabs",
        "C20" => "charset",
        "C15" => "misc",
        _ => "any",
    }
}

fn counts(tier: &str, quick: u32, thorough: u32) -> u32 {
    if tier == "thorough" {
        thorough
    } else {
        quick
    }
}

fn fill_markers(cols: u32, lines: u32, sparse: bool) -> Vec<Op> {
    let mut ops = vec![];
    for y in 0..lines {
        if sparse && y % 2 == 1 {
            continue;
        }
        ops.push(Op::Api(Call::CursorPosition(Some(y + 1), Some(1))));
        let mut t: String = (0..cols)
            .map(|x| char::from_u32('A' as u32 + ((y * cols + x) % 58)).unwrap())
            .collect();
        if y == 0 && cols >= 3 {
            // one double-width character (lead in column 1, placeholder in column 2)
            let cs: Vec<char> = t.chars().collect();
            t = format!("{}{}{}", cs[0], '\u{4e2d}', cs[3..].iter().collect::<String>());
        }
        ops.push(Op::Api(Call::Sgr(vec![31 + (y % 6), 41 + ((y + 2) % 6)])));
        // draw char by char without wrapping at the end
        ops.push(Op::Api(Call::ResetMode(vec![7], true)));
        ops.push(Op::Api(Call::Draw(t)));
        ops.push(Op::Api(Call::SetMode(vec![7], true)));
    }
    ops.push(Op::Api(Call::Sgr(vec![0, 1, 35])));
    ops
}

fn param_set(size: u32) -> Vec<Option<u32>> {
    let mut v = vec![None, Some(0)];
    for k in 1..=(size + 2) {
        v.push(Some(k));
    }
    v.push(Some(9999));
    v
}

/// (margins, decom) variants for a geometry: None or every region, DECOM off/on.
fn regions(lines: u32) -> Vec<(Option<(u32, u32)>, bool)> {
    let mut out = vec![(None, false), (None, true)];
    for top in 0..lines {
        for bottom in (top + 1)..lines {
            out.push((Some((top, bottom)), false));
            out.push((Some((top, bottom)), true));
        }
    }
    out
}

fn region_setup(m: Option<(u32, u32)>, decom: bool) -> Vec<Op> {
    let mut v = vec![];
    if let Some((t, b)) = m {
        v.push(Op::Api(Call::SetMargins(Some(t + 1), Some(b + 1))));
    }
    if decom {
        v.push(Op::Api(Call::SetMode(vec![6], true)));
    }
    v
}

/// Ops that put the cursor at (cy, cx) (cx == cols: pending wrap) in a state
/// prepared by region_setup; None if the position is not reachable this way.
fn place(m: Option<(u32, u32)>, decom: bool, cols: u32, cy: u32, cx: u32) -> Option<Vec<Op>> {
    let mut v = vec![];
    let line = match (m, decom) {
        (Some((t, b)), true) => {
            if cy < t || cy > b {
                return None;
            }
            cy - t + 1
        }
        _ => cy + 1,
    };
    v.push(Op::Api(Call::CursorPosition(Some(line), Some(cx.min(cols - 1) + 1))));
    if cx == cols {
        v.push(Op::Api(Call::Draw("w".into())));
    }
    Some(v)
}

/// The STATE ZOO: unusual but reachable states, each as (columns, lines, ops that reach it).  Every
/// property's own operations are tried from every one of them (`zoo_sessions`).
fn state_zoo() -> Vec<(u32, u32, Vec<Op>)> {
    let a = api;
    let cup = |l: u32, c: u32| api(Call::CursorPosition(Some(l), Some(c)));
    let dr = |t: &str| api(Call::Draw(t.to_string()));
    let smp = |v: &[u32]| api(Call::SetMode(v.to_vec(), true));
    let rmp = |v: &[u32]| api(Call::ResetMode(v.to_vec(), true));
    let mut z: Vec<(u32, u32, Vec<Op>)> = vec![];
    // a combining mark that landed in the placeholder of a wide character, whose lead was then removed or
    // overwritten: a visible cell whose text starts with a zero-width character
    z.push((6, 3, vec![dr("\u{4e2d}"), dr("\u{301}"), cup(1, 1), a(Call::DeleteCharacters(Some(1)))]));
    z.push((6, 3, vec![dr("\u{4e2d}"), dr("\u{301}"), cup(1, 1), dr("x"), cup(1, 1)]));
    z.push((6, 3, vec![dr("a\u{4e2d}"), dr("\u{308}\u{301}"), cup(1, 2), a(Call::EraseCharacters(Some(1))), cup(1, 1)]));
    // a SPACE written with reverse off while the screen is in reverse video (it equals CharOpts::default(), not
    // default_char()), followed by text, cursor in front of it
    z.push((8, 3, vec![smp(&[5]), dr("ab"), a(Call::Sgr(vec![27])), dr(" c"), cup(1, 1)]));
    z.push((8, 3, vec![smp(&[5]), a(Call::Sgr(vec![27])), dr(" "), a(Call::Sgr(vec![7])), dr("d "), a(Call::Sgr(vec![27])), dr(" "), cup(1, 2)]));
    // tab stops left beyond a narrowed screen, and HT already taken from there
    z.push((20, 3, vec![a(Call::Resize(Some(3), Some(5))), a(Call::Tab)]));
    z.push((20, 3, vec![cup(1, 18), a(Call::SetTabStop), a(Call::Resize(Some(3), Some(10))), cup(1, 9), a(Call::Tab)]));
    // already 132 columns wide (by DECCOLM), region with top > 0, origin mode
    z.push((10, 6, vec![smp(&[3]), a(Call::SetMargins(Some(3), Some(5))), smp(&[6]), cup(2, 4), dr("m")]));
    z.push((132, 6, vec![a(Call::SetMargins(Some(2), Some(4))), smp(&[6]), cup(1, 132), dr("m")]));
    // reverse video with cells and a cursor rendition that are NOT reverse
    z.push((8, 4, vec![cup(2, 1), dr("abc"), smp(&[5]), a(Call::Sgr(vec![27])), cup(1, 1), dr("xy"), cup(2, 2)]));
    // a rendition saved before DECSCNM comes back after it
    z.push((8, 4, vec![a(Call::Sgr(vec![1, 34])), a(Call::SaveCursor), smp(&[5]), a(Call::RestoreCursor), cup(3, 3), dr("k")]));
    // region with top > 0, origin mode, cursor in the region / pending wrap on its bottom margin
    z.push((6, 6, vec![a(Call::SetMargins(Some(2), Some(4))), smp(&[6]), cup(2, 3), dr("m")]));
    z.push((4, 6, vec![cup(6, 1), dr("stat"), a(Call::SetMargins(Some(2), Some(4))), cup(4, 1), dr("wxyz")]));
    // cursor below / above the region (origin mode off)
    z.push((6, 6, vec![a(Call::SetMargins(Some(2), Some(4))), cup(6, 2), dr("st")]));
    z.push((6, 6, vec![a(Call::SetMargins(Some(3), Some(5))), cup(1, 4)]));
    // origin mode without a region (a resize dropped it)
    z.push((6, 5, vec![a(Call::SetMargins(Some(2), Some(4))), smp(&[6]), a(Call::Resize(Some(6), None)), cup(2, 2)]));
    // double-width characters: cursor on the placeholder, lead in the last column, lead overwritten
    z.push((6, 3, vec![dr("a\u{4e2d}b\u{4e2d}"), cup(1, 3)]));
    z.push((5, 3, vec![rmp(&[7]), cup(1, 5), dr("\u{4e2d}"), smp(&[7]), cup(1, 5)]));
    z.push((6, 3, vec![dr("\u{4e2d}\u{4e2d}"), cup(1, 1), dr("x"), cup(1, 2)]));
    // a symbol with a variation selector, a combining sequence, a mark on a never-written cell
    z.push((6, 3, vec![dr("\u{263a}\u{fe0f}ab"), cup(2, 3), dr("\u{301}"), cup(1, 2)]));
    // insert mode, autowrap, new-line mode in every combination at pending wrap over a filled next row
    for (irm, awm, lnm) in [(true, true, false), (true, false, false), (false, true, true), (true, true, true)] {
        let mut v = vec![cup(2, 1), dr("XYZ"), cup(1, 1)];
        if irm { v.push(a(Call::SetMode(vec![4], false))); }
        if !awm { v.push(rmp(&[7])); }
        if lnm { v.push(a(Call::SetMode(vec![20], false))); }
        v.push(dr("abcde"));
        z.push((5, 3, v));
    }
    // 8-bit mode with G1 (graphics) shifted in / G0 designated graphics
    z.push((8, 3, vec![Op::Utf8(false), Op::Feed("\x0e".into()), dr("lqk")]));
    z.push((8, 3, vec![Op::Utf8(false), Op::Feed("\x1b(0".into()), dr("x")]));
    // shifted out in 8-bit mode, then the embedder switches to UTF-8 (and back)
    z.push((8, 3, vec![Op::Utf8(false), Op::Feed("\x0e".into()), Op::Utf8(true)]));
    z.push((8, 3, vec![Op::Utf8(false), Op::Feed("\x0e".into()), Op::Utf8(true), Op::Utf8(false)]));
    // deep saved-cursor stacks (16, 17, 40) with a charset / rendition change after the newest save
    for d in [16u32, 17, 40] {
        let mut v = vec![];
        for i in 0..d { v.push(cup(i % 3 + 1, i % 5 + 1)); v.push(a(Call::SaveCursor)); }
        v.push(a(Call::DefineCharset("0".into(), "(".into())));
        v.push(a(Call::ShiftOut));
        v.push(a(Call::Sgr(vec![4, 33])));
        z.push((8, 4, v));
    }
    // DECCOLM: set from 40 columns, set twice, set then RIS, native 132, set then an embedder resize
    z.push((40, 3, vec![smp(&[3]), cup(1, 41), dr("far")]));
    z.push((40, 3, vec![smp(&[3]), smp(&[3])]));
    z.push((40, 3, vec![smp(&[3]), a(Call::Reset)]));
    z.push((132, 3, vec![dr("native")]));
    z.push((40, 3, vec![smp(&[3]), a(Call::Resize(None, Some(100)))]));
    // tab stops: default one cleared and another added at column 0 / at the pending-wrap column / beyond a narrowed screen
    z.push((20, 2, vec![a(Call::CursorToColumn(Some(9))), a(Call::ClearTabStop(Some(0))), a(Call::CursorToColumn(Some(1))), a(Call::SetTabStop)]));
    z.push((16, 2, vec![a(Call::CursorToColumn(Some(9))), a(Call::ClearTabStop(Some(0))), cup(1, 16), dr("w"), a(Call::SetTabStop), cup(1, 1)]));
    z.push((40, 2, vec![a(Call::CursorToColumn(Some(35))), a(Call::SetTabStop), a(Call::Tab), a(Call::Resize(None, Some(20))), cup(1, 1)]));
    z.push((20, 2, vec![a(Call::Tab), a(Call::Resize(None, Some(40))), cup(1, 22)]));
    // hidden cursor / DECTCEM out of step, title set, dirty set cleared, display() called
    z.push((6, 3, vec![a(Call::SaveCursor), rmp(&[25]), a(Call::RestoreCursor), a(Call::SetTitle("t".into()))]));
    z.push((6, 3, vec![dr("abc"), a(Call::ClearDirty), a(Call::Display), cup(2, 2)]));
    // 1x1 and 1-column screens with a pending wrap and autowrap off
    z.push((1, 1, vec![dr("a")]));
    z.push((1, 3, vec![rmp(&[7]), dr("a")]));
    // an aborted / skipped CSI with pending digits right before (state of the recogniser, not of the screen)
    z.push((8, 3, vec![Op::Feed("\x1b[12$p".into())]));
    z.push((8, 3, vec![Op::Feed("\x1b[?2026\x18".into())]));
    z
}

/// the operations a property owns, with their corner parameters
fn own_cands(prop: &str, cols: u32, lines: u32, r: &mut Rng) -> Vec<Call> {
    let mut c = vec![];
    match prop {
        "C04" => {
            for t in ["x", "\u{4e2d}", "xy", "\u{301}", "x\u{301}", "\u{263a}\u{fe0f}", "q~", "\u{200b}", "abcdefgh"] {
                c.push(Call::Draw(t.to_string()));
            }
        }
        "C05" => {
            for p in param_set(lines.max(cols)) {
                c.extend([Call::CursorUp(p), Call::CursorDown(p), Call::CursorForward(p), Call::CursorBack(p), Call::CursorDown1(p),
                          Call::CursorUp1(p), Call::CursorToColumn(p), Call::CursorToLine(p)]);
                for q in [None, Some(0), Some(1), Some(cols), Some(cols + 1), Some(9999)] {
                    c.push(Call::CursorPosition(p, q));
                }
            }
            c.extend([Call::Backspace, Call::CarriageReturn]);
        }
        "C06" => {
            c.extend([Call::Index, Call::ReverseIndex, Call::Linefeed, Call::Draw("x".into()), Call::Draw("\u{4e2d}".into())]);
            for p in param_set(lines) {
                c.push(Call::InsertLines(p));
                c.push(Call::DeleteLines(p));
            }
            for a in [None, Some(0), Some(1), Some(2), Some(lines), Some(9999)] {
                for b in [None, Some(0), Some(2), Some(lines - 1), Some(lines), Some(9999)] {
                    c.push(Call::SetMargins(a, b));
                }
            }
        }
        "C07" => {
            for h in [None, Some(0), Some(1), Some(2), Some(3), Some(4), Some(9999)] {
                c.push(Call::EraseInDisplay(h));
                c.push(Call::EraseInLine(h));
            }
            for p in param_set(cols) {
                c.push(Call::EraseCharacters(p));
            }
        }
        "C08" => {
            for code in [0u32, 1, 3, 4, 5, 7, 9, 22, 23, 24, 25, 27, 29, 31, 39, 44, 49, 91, 102] {
                c.push(Call::Sgr(vec![code]));
            }
            c.extend([Call::Sgr(vec![]), Call::Sgr(vec![38, 5, 196]), Call::Sgr(vec![48, 2, 1, 2, 3]), Call::Sgr(vec![38, 5, 256]), Call::Sgr(vec![0, 1, 38, 1])]);
        }
        "C10" => c.push(Call::Display),
        "C12" => {
            for n in [3u32, 4, 5, 6, 7, 20, 25] {
                for p in [false, true] {
                    c.push(Call::SetMode(vec![n], p));
                    c.push(Call::ResetMode(vec![n], p));
                }
            }
            // "DECSCNM sets / clears reverse video on ... the default and current rendition": what a reset inside
            // an SGR list resets to while the mode is on (or off again) belongs to this property (`propRev`)
            c.extend([Call::Sgr(vec![0]), Call::Sgr(vec![0, 1]), Call::Sgr(vec![1, 0, 4]), Call::Sgr(vec![27, 0]), Call::Sgr(vec![7, 0]),
                      Call::Sgr(vec![]), Call::Sgr(vec![0, 38, 5, 0]), Call::Sgr(vec![31, 0, 0, 1])]);
        }
        "C13" => {
            for p in param_set(cols) {
                c.push(Call::InsertCharacters(p));
                c.push(Call::DeleteCharacters(p));
            }
        }
        "C14" => c.extend([Call::SaveCursor, Call::RestoreCursor]),
        "C15" => c.push(Call::Reset),
        "C16" => {
            for l in [None, Some(1), Some(lines.saturating_sub(1).max(1)), Some(lines), Some(lines + 2)] {
                for k in [None, Some(1), Some(cols.saturating_sub(1).max(1)), Some(cols), Some(cols + 3), Some(cols / 2 + 1)] {
                    c.push(Call::Resize(l, k));
                }
            }
        }
        "C18" => {
            c.extend([Call::Tab, Call::SetTabStop, Call::Reset]);
            for h in [None, Some(0), Some(3), Some(2)] {
                c.push(Call::ClearTabStop(h));
            }
        }
        "C19" => {
            c.extend([Call::SetTitle("title q~".into()), Call::SetIconName("icon".into()), Call::SetTitle("".into())]);
        }
        "C20" => {
            c.extend([Call::ShiftOut, Call::ShiftIn, Call::Draw("q~a".into()), Call::SaveCursor, Call::RestoreCursor, Call::Reset,
                      Call::Resize(Some(lines.saturating_sub(1).max(1)), None), Call::Resize(None, Some(cols + 1))]);
            for code in ["B", "0", "U", "V", "K"] {
                for m in ["(", ")"] {
                    c.push(Call::DefineCharset(code.into(), m.into()));
                }
            }
        }
        _ => {
            for fam in ["draw", "move", "erase", "scroll", "ichdch", "sgr", "mode", "tabs", "save", "margins", "charset", "misc", "resize"] {
                for _ in 0..3 {
                    c.push(gen::call(r, cols, lines, fam));
                }
            }
        }
    }
    c
}


/// Parameter values that are nobody's boundary but somebody's accident: around powers of two (a
/// shift or mask that wraps), around 100 / 1000, the last values the parser can deliver.
const ODD_PARAMS: [u32; 56] = [
    6, 7, 8, 15, 16, 17, 31, 32, 33, 34, 35, 36, 63, 64, 65, 66, 67, 95, 96, 97, 98, 99, 100, 109, 127, 128, 129, 130, 131,
    132, 133, 255, 256, 257, 258, 259, 260, 511, 512, 513, 1000, 1023, 1024, 1025, 2048, 4095, 4096, 4097, 8191, 8192,
    9983, 9984, 9985, 9986, 9987, 9998,
];

/// the property's one-parameter operations, with the given parameter
fn own_param_ops(prop: &str, p: u32) -> Vec<Call> {
    let o = Some(p);
    match prop {
        "C05" => vec![Call::CursorUp(o), Call::CursorDown(o), Call::CursorForward(o), Call::CursorBack(o), Call::CursorDown1(o),
                      Call::CursorUp1(o), Call::CursorToColumn(o), Call::CursorToLine(o), Call::CursorPosition(o, Some(2)),
                      Call::CursorPosition(Some(2), o)],
        "C06" => vec![Call::InsertLines(o), Call::DeleteLines(o), Call::SetMargins(o, None), Call::SetMargins(Some(1), o)],
        "C07" => vec![Call::EraseInDisplay(o), Call::EraseInLine(o), Call::EraseCharacters(o)],
        "C08" => vec![Call::Sgr(vec![p]), Call::Sgr(vec![38, 5, p]), Call::Sgr(vec![48, 2, p, 1, 2]), Call::Sgr(vec![38, 2, 1, 2, p]),
                      Call::Sgr(vec![1, p, 4])],
        "C12" => vec![Call::SetMode(vec![p], false), Call::SetMode(vec![p], true), Call::ResetMode(vec![p], false),
                      Call::ResetMode(vec![p], true), Call::SetMode(vec![4, p], false), Call::ResetMode(vec![7, p], true)],
        "C13" => vec![Call::InsertCharacters(o), Call::DeleteCharacters(o)],
        "C18" => vec![Call::ClearTabStop(o)],
        _ => vec![],
    }
}

/// every one-parameter operation of the property x every odd parameter, from three states
fn odd_param_sessions(prop: &str, r: &mut Rng) -> Vec<Session> {
    if own_param_ops(prop, 1).is_empty() {
        return vec![];
    }
    let mut out = vec![];
    let (cols, lines) = (7u32, 4u32);
    let states: Vec<Vec<Op>> = vec![
        { let mut v = fill_markers(cols, lines, false); v.push(api(Call::CursorPosition(Some(2), Some(3)))); v },
        { let mut v = fill_markers(cols, lines, true); v.extend(region_setup(Some((1, 2)), true)); v.push(api(Call::CursorPosition(Some(1), Some(6)))); v },
        { let mut v = fill_markers(cols, lines, false); v.push(api(Call::SetMode(vec![4], false))); v.push(api(Call::CursorPosition(Some(4), Some(7)))); v.push(api(Call::Draw("w".into()))); v },
    ];
    for (k, st) in states.into_iter().enumerate() {
        let mut ops = vec![Op::Quiet(true)];
        ops.extend(st);
        ops.push(Op::Snap);
        ops.push(Op::Quiet(false));
        for p in ODD_PARAMS {
            for c in own_param_ops(prop, p) {
                push_cand(r, &mut ops, &c);
                ops.push(api(Call::Draw("q".into())));
                ops.push(api(Call::Display));
                ops.push(Op::Back);
            }
        }
        out.push(sess(format!("{}odd{}", prop.to_lowercase(), k), cols, lines, ops));
    }
    out
}

/// CSI sequences with many parameters (15 .. 100), whole and split: a recogniser or a listener that
/// keeps its parameters in a fixed-size buffer shows here and nowhere else
/// CSI parameters of every SIZE, with the cursor away from the origin: five to ten digits that still fit
/// 32 bits, the 31 / 32 / 64-bit boundaries and beyond.  The documented value of all of them is 9999
/// (round 8: a cap that only caught what overflowed the integer type passed every stream that had
/// either small numbers or twenty-digit ones).
fn big_number_sessions(prop: &str) -> Vec<Session> {
    let sizes = [
        "9999", "10000", "12345", "65535", "65536", "99999", "2147483647", "2147483648", "4294967295", "4294967296",
        "9999999999", "18446744073709551615", "18446744073709551616",
    ];
    let finals = ["A", "B", "C", "D", "E", "F", "G", "H", "J", "K", "L", "M", "P", "X", "@", "`", "a", "d", "e", "f", "g", "r", "h", "l", "m"];
    let mut out = vec![];
    for (k, f) in finals.iter().enumerate() {
        let mut ops = vec![];
        for n in sizes.iter() {
            ops.push(Op::Feed("\x1b[3;4Hab".into()));
            ops.push(Op::Feed(format!("\x1b[{}{}", n, f)));
            ops.push(Op::Feed("q".into()));
            ops.push(Op::Feed("\x1b[3;4H".into()));
            ops.push(Op::Feed(format!("\x1b[2;{}{}", n, f)));
            ops.push(Op::Feed(format!("\x1b[{};2{}w", n, f)));
        }
        ops.push(api(Call::Display));
        out.push(sess(format!("{}bignum{}", prop.to_lowercase(), k), 10, 5, ops));
    }
    out
}

fn long_param_sessions(prop: &str, r: &mut Rng) -> Vec<Session> {
    let mut out = vec![];
    let codes: [u32; 12] = [1, 3, 4, 5, 7, 9, 31, 42, 22, 27, 39, 49];
    for (k, n) in [15usize, 16, 17, 18, 31, 32, 33, 63, 64, 65, 100].iter().enumerate() {
        let mut ops = vec![];
        // SGR whose LAST parameters matter: rgb background at the end, bold at the very end
        let mut v: Vec<u32> = (0..*n).map(|i| codes[i % codes.len()]).collect();
        let l = v.len();
        v[l - 1] = 1;
        let mut w = v.clone();
        if l >= 6 {
            w[l - 5..].copy_from_slice(&[48, 2, 10, 20, 30]);
        }
        // mode lists: the last entry is IRM (4) / DECTCEM (25)
        let mut m: Vec<u32> = (0..*n as u32).map(|i| 1000 + i).collect();
        m[l - 1] = 4;
        let mut mp: Vec<u32> = (0..*n as u32).map(|i| 2000 + i).collect();
        mp[l - 1] = 25;
        for c in [Call::Sgr(v), Call::Sgr(w), Call::SetMode(m.clone(), false), Call::ResetMode(mp.clone(), true), Call::SetMode(mp, true), Call::ResetMode(m, false)] {
            if let Some(t) = gen::render_plain(r, &c) {
                // whole
                ops.push(Op::Feed(t.clone()));
                ops.push(Op::Feed("x".into()));
                // split at a random place
                let cs: Vec<char> = t.chars().collect();
                let cut = 1 + r.below((cs.len() - 1) as u32) as usize;
                ops.push(Op::Feed(cs[..cut].iter().collect()));
                ops.push(Op::Feed(cs[cut..].iter().collect()));
                ops.push(Op::Feed("y".into()));
            }
            ops.push(api(c));
            ops.push(api(Call::Draw("z".into())));
        }
        ops.push(api(Call::Display));
        out.push(sess(format!("{}long{}", prop.to_lowercase(), k), 9, 3, ops));
        // the same through the byte parser, one feed
        let mut bops = vec![];
        let v2: Vec<u32> = (0..*n).map(|i| codes[(i + 3) % codes.len()]).chain([48, 5, 196, 4]).collect();
        if let Some(t) = gen::render_plain(r, &Call::Sgr(v2)) {
            bops.push(Op::FeedB(t.into_bytes()));
            bops.push(Op::FeedB(b"k".to_vec()));
        }
        bops.push(api(Call::Display));
        let mut bs = sess(format!("{}longb{}", prop.to_lowercase(), k), 9, 3, bops);
        bs.bytes = true;
        out.push(bs);
    }
    out
}

/// 8-bit mode fed with chunks that happen to be well-formed UTF-8 (whole, split, mixed), with the
/// four character sets: each byte is one code point whatever the chunk looks like
fn eightbit_utf8_lookalikes() -> Vec<Session> {
    let mut out = vec![];
    let seqs: [&[u8]; 9] = [b"\xc3\xa9", b"\xc3\xb4", b"\xc4\xb3", b"\xe2\x82\xac", b"\xf0\x9f\x98\x80", b"a\xc3\xa9b", b"\xc2\xa0\xc2\xa0",
                            b"\xef\xbb\xbfq", b"q\xd7\x90\xd7\x91"];
    for (k, code) in ["B", "0", "U", "V"].iter().enumerate() {
        let mut ops = vec![Op::Charset("@".into()), api(Call::DefineCharset(code.to_string(), "(".into())),
                           api(Call::DefineCharset("U".into(), ")".into()))];
        for s in seqs {
            ops.push(Op::FeedB(s.to_vec()));
            ops.push(Op::FeedB(b"\r\n".to_vec()));
            // the same bytes one at a time, and after SO
            for b in s {
                ops.push(Op::FeedB(vec![*b]));
            }
            ops.push(Op::FeedB(b"\x0e".to_vec()));
            ops.push(Op::FeedB(s.to_vec()));
            ops.push(Op::FeedB(b"\x0f\r\n".to_vec()));
        }
        // back to UTF-8: the same chunks decode as UTF-8 again
        ops.push(Op::Charset("G".into()));
        for s in seqs {
            ops.push(Op::FeedB(s.to_vec()));
        }
        ops.push(api(Call::Display));
        let mut se = sess(format!("c20u8like{}", k), 12, 4, ops);
        se.bytes = true;
        out.push(se);
    }
    out
}

/// two (three) nested DECSC at columns that a later shrink of the width makes illegal, then as many DECRC
fn nested_saves_then_shrink() -> Vec<Session> {
    let mut out = vec![];
    let mut n = 0;
    for (cols, xs) in [(12u32, vec![10u32, 12]), (12, vec![12, 7, 11]), (20, vec![20, 19]), (9, vec![3, 9, 6])] {
        for newc in [1u32, 2, 3, 5, cols - 1] {
            for how in 0..2 {
                let mut ops = vec![];
                for (i, x) in xs.iter().enumerate() {
                    ops.push(api(Call::CursorPosition(Some(1 + (i as u32 % 3)), Some(*x))));
                    if *x == cols {
                        ops.push(api(Call::Draw("w".into()))); // pending wrap: x == columns
                    }
                    ops.push(api(Call::Sgr(vec![31 + i as u32])));
                    ops.push(api(Call::SaveCursor));
                }
                ops.push(api(Call::CursorPosition(Some(1), Some(1))));
                if how == 0 {
                    ops.push(api(Call::Resize(None, Some(newc))));
                } else {
                    ops.push(api(Call::Resize(Some(2), Some(newc))));
                }
                for _ in 0..xs.len() + 1 {
                    ops.push(api(Call::RestoreCursor));
                    ops.push(api(Call::Draw("r".into())));
                    ops.push(api(Call::Display));
                }
                n += 1;
                out.push(sess(format!("c14shrink{}", n), cols, 3, ops));
            }
        }
    }
    // the in-stream shrink: 132 -> 80 by DECCOLM
    for xs in [vec![100u32, 120], vec![132, 90, 131]] {
        let mut ops = vec![api(Call::SetMode(vec![3], true))];
        for x in &xs {
            ops.push(api(Call::CursorPosition(Some(2), Some(*x))));
            ops.push(api(Call::SaveCursor));
        }
        ops.push(api(Call::ResetMode(vec![3], true)));
        for _ in 0..xs.len() + 1 {
            ops.push(api(Call::RestoreCursor));
            ops.push(api(Call::Draw("r".into())));
        }
        ops.push(api(Call::Display));
        n += 1;
        out.push(sess(format!("c14shrink{}", n), 80, 3, ops));
    }
    out
}


/// Characters that LOOK like members of a class of the grammar but are not: non-ASCII digits, fullwidth
/// and look-alike separators, superscripts - inside CSI and OSC sequences, in both modes, and as bytes in
/// 8-bit mode.  Only ASCII digits are digits; everything else is a final (or payload).
fn impostor_sessions() -> Vec<Session> {
    let imp: Vec<char> = vec!['\u{663}', '\u{b2}', '\u{b9}', '\u{bc}', '\u{ff11}', '\u{969}', '\u{2460}', '\u{1d7d8}', '\u{ff1b}', '\u{37e}',
                              '\u{ff1f}', '\u{6f3}', '\u{e9}', '\u{2075}'];
    let mut out = vec![];
    let mut n = 0;
    for utf8 in [true, false] {
        for x in &imp {
            let templates: Vec<String> = vec![
                format!("\x1b[{}B", x), format!("\x1b[1{}B", x), format!("\x1b[{}1B", x), format!("\x1b[{};2H", x), format!("{}{}m", '\u{9b}', x),
                format!("\x1b[?{}h", x), format!("\x1b[1;{}r", x), format!("\x1b]{};t\x07", x), format!("\x1b]2{}t\x07", x),
                format!("\x1b[3{}8;5;1m", x),
            ];
            let mut ops = vec![Op::Utf8(utf8)];
            for t in templates {
                ops.push(Op::Feed(t));
                ops.push(Op::Feed("z".into()));
            }
            n += 1;
            out.push(Session { columns: 6, lines: 2, bytes: false, events_only: true, id: format!("c03imp{}", n), ops });
        }
    }
    // the same as bytes in 8-bit mode (0xB2 0xB9 0xBC are numeric in Latin-1) and in UTF-8 mode
    for eight in [true, false] {
        let mut ops = vec![];
        if eight {
            ops.push(Op::Charset("@".into()));
        }
        for b in [0xb2u8, 0xb3, 0xb9, 0xbc, 0xbd, 0xbe, 0xe9, 0xd9] {
            let mut seq: Vec<u8> = if eight { vec![0x1b, b'[', b, b'B'] } else { vec![0x1b, b'[', 0xc2, b, b'B'] };
            seq.extend_from_slice(b"z");
            ops.push(Op::FeedB(seq));
            let mut seq2: Vec<u8> = if eight { vec![0x9b, b'1', b, b';', b'2', b'H'] } else { vec![0x1b, b'[', b'1', 0xc2, b, b';', b'2', b'H'] };
            seq2.extend_from_slice(b"y");
            ops.push(Op::FeedB(seq2));
        }
        ops.push(api(Call::Display));
        n += 1;
        let mut se = sess(format!("c03impb{}", n), 8, 3, ops);
        se.bytes = true;
        out.push(se);
    }
    out
}

/// every operation the property owns, from every state of the zoo; after the operation a probe
/// (position-revealing text, a tab, the rendering) makes latent state visible
fn zoo_sessions(prop: &str, tier: &str, r: &mut Rng) -> Vec<Session> {
    let mut out = vec![];
    for (i, (cols, lines, prefix)) in state_zoo().into_iter().enumerate() {
        let cands = own_cands(prop, cols, lines, r);
        let keep = if tier == "thorough" || cands.len() <= 60 { 1 } else { (cands.len() / 60) as u32 + 1 };
        let mut ops = vec![Op::Quiet(true)];
        ops.extend(prefix);
        ops.push(Op::Snap);
        ops.push(Op::Quiet(false));
        for c in &cands {
            if keep > 1 && r.below(keep) != 0 {
                continue;
            }
            push_cand(r, &mut ops, c);
            ops.push(api(Call::Draw("q~".into())));
            ops.push(api(Call::Tab));
            ops.push(api(Call::Draw("\u{4e2d}".into())));
            ops.push(api(Call::Display));
            ops.push(Op::Back);
        }
        out.push(sess(format!("{}zoo{}", prop.to_lowercase(), i), cols, lines, ops));
    }
    out
}

/// C05: exhaustive (geometry x margins x DECOM x cursor x op x parameter).
fn enum_c05(tier: &str, r: &mut Rng) -> Vec<Session> {
    let maxg = counts(tier, 3, 6);
    let keep = counts(tier, 5, 1);
    let mut out = vec![];
    let mut n = 0;
    for cols in 1..=maxg {
        for lines in 1..=maxg {
            let mut cands: Vec<Call> = vec![Call::Backspace, Call::CarriageReturn];
            for p in param_set(lines.max(cols)) {
                cands.push(Call::CursorUp(p));
                cands.push(Call::CursorDown(p));
                cands.push(Call::CursorForward(p));
                cands.push(Call::CursorBack(p));
                cands.push(Call::CursorDown1(p));
                cands.push(Call::CursorUp1(p));
                cands.push(Call::CursorToColumn(p));
                cands.push(Call::CursorToLine(p));
                for q in [None, Some(0), Some(1), Some(2), Some(cols), Some(cols + 1), Some(9999)] {
                    cands.push(Call::CursorPosition(p, q));
                    cands.push(Call::CursorPosition(q, p));
                }
            }
            for (m, decom) in regions(lines) {
                let mut ops = vec![Op::Quiet(true)];
                ops.extend(region_setup(m, decom));
                for cy in 0..lines {
                    for cx in 0..=cols {
                        if let Some(pl) = place(m, decom, cols, cy, cx) {
                            ops.extend(pl);
                            ops.push(Op::Snap);
                            ops.push(Op::Quiet(false));
                            for c in &cands {
                                if keep == 1 || r.below(keep) == 0 {
                                    push_cand(r, &mut ops, c);
                                    ops.push(Op::Back);
                                }
                            }
                            ops.push(Op::Quiet(true));
                        }
                    }
                }
                n += 1;
                out.push(Session { columns: cols, lines, bytes: false, events_only: false, id: format!("c05e{}", n), ops });
            }
        }
    }
    out
}

/// Push a candidate either as an API call or through its escape sequence.
fn push_cand(r: &mut Rng, ops: &mut Vec<Op>, c: &Call) {
    if r.chance(1, 3) {
        if let Some(s) = gen::render(r, c) {
            ops.push(Op::Feed(s));
            return;
        }
    }
    ops.push(Op::Api(c.clone()));
}

fn api(c: Call) -> Op {
    Op::Api(c)
}

fn sess(id: String, cols: u32, lines: u32, ops: Vec<Op>) -> Session {
    Session { columns: cols, lines, bytes: false, events_only: false, id, ops }
}

/// quiet prefix, then for every candidate: snap; candidate; back
fn fan_out(r: &mut Rng, prefix: Vec<Op>, cands: &[Call], keep: u32, via_parser: bool) -> Vec<Op> {
    let mut ops = vec![Op::Quiet(true)];
    ops.extend(prefix);
    ops.push(Op::Snap);
    ops.push(Op::Quiet(false));
    for c in cands {
        if keep <= 1 || r.below(keep) == 0 {
            if via_parser {
                push_cand(r, &mut ops, c);
            } else {
                ops.push(api(c.clone()));
            }
            ops.push(Op::Back);
        }
    }
    ops
}

/// C06: every region x cursor row x operation x count, on marker screens (written and sparse).
fn enum_c06(tier: &str, r: &mut Rng) -> Vec<Session> {
    let maxl = counts(tier, 4, 7);
    let keep = counts(tier, 3, 1);
    let mut out = vec![];
    let mut n = 0;
    for lines in 1..=maxl {
        for cols in [2u32, 3] {
            let mut cands = vec![Call::Index, Call::ReverseIndex, Call::Linefeed];
            // autowrap: printable characters (narrow, wide, several) at whatever position `place` gives
            for t in ["x", "\u{4e2d}", "xy", "x\u{301}"] {
                cands.push(Call::Draw(t.to_string()));
            }
            for p in param_set(lines) {
                cands.push(Call::InsertLines(p));
                cands.push(Call::DeleteLines(p));
            }
            let margin_args: Vec<Option<u32>> =
                std::iter::once(None).chain((0..=lines + 1).map(Some)).chain(std::iter::once(Some(9999))).collect();
            for a in &margin_args {
                for b in &margin_args {
                    cands.push(Call::SetMargins(*a, *b));
                }
            }
            for sparse in [false, true] {
                for (m, decom) in regions(lines) {
                    for cy in 0..lines {
                        for cx in [0, cols - 1, cols] {
                            if let Some(pl) = place(m, decom, cols, cy, cx) {
                                let mut prefix = fill_markers(cols, lines, sparse);
                                prefix.extend(region_setup(m, decom));
                                prefix.extend(pl);
                                if r.chance(1, 3) {
                                    prefix.push(api(Call::SetMode(vec![20], false)));
                                }
                                n += 1;
                                out.push(sess(format!("c06e{}", n), cols, lines, fan_out(r, prefix, &cands, keep, true)));
                            }
                        }
                    }
                }
            }
        }
    }
    out
}

fn enum_c07(tier: &str, r: &mut Rng) -> Vec<Session> {
    let (maxc, maxl) = if tier == "thorough" { (8, 5) } else { (4, 3) };
    let keep = counts(tier, 2, 1);
    let mut out = vec![];
    let mut n = 0;
    let sel = [None, Some(0), Some(1), Some(2), Some(3), Some(4), Some(5), Some(9999)];
    for cols in 1..=maxc {
        for lines in 1..=maxl {
            let mut cands = vec![];
            for h in sel {
                cands.push(Call::EraseInDisplay(h));
                cands.push(Call::EraseInLine(h));
            }
            for p in param_set(cols) {
                cands.push(Call::EraseCharacters(p));
            }
            for (m, decom) in [(None, false), (if lines >= 2 { Some((0, lines - 1)) } else { None }, true),
                               (if lines >= 3 { Some((1, lines - 1)) } else { None }, false)] {
                for cy in 0..lines {
                    for cx in 0..=cols {
                        if let Some(pl) = place(m, decom, cols, cy, cx) {
                            let mut prefix = fill_markers(cols, lines, cy % 2 == 1);
                            prefix.extend(region_setup(m, decom));
                            prefix.extend(pl);
                            n += 1;
                            out.push(sess(format!("c07e{}", n), cols, lines, fan_out(r, prefix, &cands, keep, true)));
                        }
                    }
                }
            }
        }
    }
    out
}

/// C13: all single ICH/DCH at every column, plus interleavings on one row.
fn enum_c13(tier: &str, r: &mut Rng) -> Vec<Session> {
    let maxc = counts(tier, 5, 9);
    let mut out = vec![];
    let mut n = 0;
    for cols in 1..=maxc {
        let mut cands = vec![];
        for p in param_set(cols) {
            cands.push(Call::InsertCharacters(p));
            cands.push(Call::DeleteCharacters(p));
        }
        for sparse_row in [false, true] {
            for cx in 0..=cols {
                let mut prefix = if sparse_row { vec![] } else { fill_markers(cols, 2, false) };
                if let Some(pl) = place(None, false, cols, 0, cx) {
                    if sparse_row && cx == cols {
                        continue;
                    }
                    prefix.extend(pl);
                }
                n += 1;
                out.push(sess(format!("c13e{}", n), cols, 2, fan_out(r, prefix, &cands, 1, true)));
            }
        }
    }
    // interleavings of length <= 4 on the same row
    let k = counts(tier, 1500, 30000);
    for i in 0..k {
        let cols = r.range(1, 7);
        let mut ops = fill_markers(cols, 1, r.chance(1, 4));
        let len = r.range(2, 4);
        for _ in 0..len {
            ops.push(api(Call::CursorToColumn(Some(r.range(1, cols + 1)))));
            if r.chance(1, 6) {
                ops.push(api(Call::Draw("w".into()))); // may reach the pending-wrap column
            }
            let c = match r.below(6) {
                0 | 1 => Call::InsertCharacters(gen::param(r, cols)),
                2 | 3 => Call::DeleteCharacters(gen::param(r, cols)),
                4 => Call::EraseInLine(*r.pick(&[None, Some(0), Some(1), Some(2)])),
                _ => {
                    ops.push(api(Call::SetMode(vec![4], false)));
                    let t: String = (0..r.range(1, 2)).map(|_| *r.pick(&['x', '\u{4e2d}', 'y'])).collect();
                    ops.push(api(Call::Draw(t)));
                    Call::ResetMode(vec![4], false)
                }
            };
            ops.push(api(c));
        }
        // grow afterwards: nothing discarded may come back
        ops.push(api(Call::Resize(Some(2), Some(cols + 2))));
        ops.push(api(Call::Display));
        out.push(sess(format!("c13i{}", i), cols, 1, ops));
    }
    out
}

/// states with margins, DECOM, pending-wrap cursor and a wide character on the cut line
fn resize_states(r: &mut Rng, cols: u32, lines: u32) -> Vec<Vec<Op>> {
    let mut out = vec![];
    for variant in 0..4 {
        let mut p = fill_markers(cols, lines, variant == 1);
        if variant >= 2 && lines >= 2 {
            p.push(api(Call::SetMargins(Some(1), Some(lines.max(2) - if lines > 2 { 1 } else { 0 }))));
            if variant == 3 {
                p.push(api(Call::SetMode(vec![6], true)));
            }
        }
        if cols >= 2 {
            p.push(api(Call::CursorPosition(Some(1), Some(cols - 1))));
            p.push(api(Call::Draw("\u{4e2d}".into())));
        }
        let cy = r.range(1, lines);
        p.push(api(Call::CursorPosition(Some(cy), Some(cols))));
        if r.chance(1, 2) {
            p.push(api(Call::Draw("w".into())));
        }
        if r.chance(1, 3) {
            p.push(api(Call::SaveCursor));
        }
        out.push(p);
    }
    out
}

fn enum_c16(tier: &str, r: &mut Rng) -> Vec<Session> {
    let maxg = counts(tier, 4, 7);
    let mut out = vec![];
    let mut n = 0;
    for cols in 1..=maxg {
        for lines in 1..=maxg {
            let mut cands = vec![Call::Resize(None, None)];
            for l in 1..=lines + 2 {
                for c in 1..=cols + 2 {
                    cands.push(Call::Resize(Some(l), Some(c)));
                }
                cands.push(Call::Resize(Some(l), None));
            }
            for c in 1..=cols + 2 {
                cands.push(Call::Resize(None, Some(c)));
            }
            for prefix in resize_states(r, cols, lines) {
                n += 1;
                out.push(sess(format!("c16e{}", n), cols, lines, fan_out(r, prefix, &cands, 1, false)));
            }
        }
    }
    // resize sequences (shrink then grow in particular), DECCOLM round trip
    let k = counts(tier, 600, 12000);
    for i in 0..k {
        let cols = r.range(1, 7);
        let lines = r.range(1, 7);
        let states = resize_states(r, cols, lines);
        let mut ops = r.pick(&states).clone();
        let len = counts(tier, 2, 3);
        for _ in 0..r.range(1, len) {
            ops.push(api(Call::Resize(Some(r.range(1, lines + 2)), Some(r.range(1, cols + 2)))));
            if r.chance(1, 5) {
                ops.push(api(Call::Draw("q".into())));
            }
        }
        ops.push(api(Call::Resize(Some(lines + 2), Some(cols + 2))));
        if r.chance(1, 4) {
            ops.push(api(Call::SetMode(vec![3], true)));
            ops.push(api(Call::Draw("zz".into())));
            ops.push(api(Call::ResetMode(vec![3], true)));
        }
        ops.push(api(Call::Display));
        out.push(sess(format!("c16s{}", i), cols, lines, ops));
    }
    out
}

fn enum_c18(tier: &str, r: &mut Rng) -> Vec<Session> {
    let maxw = counts(tier, 20, 140);
    let mut out = vec![];
    for w in 1..=maxw {
        let mut ops = vec![Op::Quiet(true)];
        // a random subset of stops through HTS / TBC
        for _ in 0..r.range(0, 6) {
            ops.push(api(Call::CursorToColumn(Some(r.range(1, w + 1)))));
            ops.push(api(if r.chance(2, 3) { Call::SetTabStop } else { Call::ClearTabStop(*r.pick(&[None, Some(0)])) }));
        }
        if r.chance(1, 6) {
            ops.push(api(Call::ClearTabStop(Some(3))));
        }
        if r.chance(1, 4) {
            // width change between setting a stop and using it
            ops.push(api(Call::Resize(None, Some(r.range(1, w + 10)))));
        }
        ops.push(Op::Quiet(false));
        let wnow = w + 10;
        for x in 0..=wnow.min(w + 10) {
            ops.push(api(Call::CursorToColumn(Some(x + 1))));
            if x % 5 == 4 {
                ops.push(api(Call::Draw("w".into())));
            }
            ops.push(api(Call::Tab));
            if x > w + 1 {
                break;
            }
        }
        for h in [None, Some(0), Some(1), Some(2), Some(3), Some(4), Some(9999)] {
            ops.push(api(Call::CursorToColumn(Some(r.range(1, w)))));
            ops.push(api(Call::SetTabStop));
            ops.push(api(Call::ClearTabStop(h)));
        }
        ops.push(api(Call::Reset));
        out.push(sess(format!("c18e{}", w), w, 2, ops));
    }
    for w in [20u32, 33] {
        let mut n = 0;
        for clear in (8..w).step_by(8) {
            for add in 0..=w {
                if tier != "thorough" && add % 8 != 0 && add != w && add != w - 1 && add != clear + 1 {
                    continue;
                }
                let mut ops = vec![Op::Quiet(true)];
                ops.push(api(Call::CursorToColumn(Some(clear + 1))));
                ops.push(api(Call::ClearTabStop(Some(0))));
                if add == w {
                    ops.push(api(Call::CursorToColumn(Some(w))));
                    ops.push(api(Call::Draw("w".into())));
                } else {
                    ops.push(api(Call::CursorToColumn(Some(add + 1))));
                }
                ops.push(api(Call::SetTabStop));
                ops.push(Op::Quiet(false));
                for x in 0..w {
                    ops.push(api(Call::CursorToColumn(Some(x + 1))));
                    ops.push(api(Call::Tab));
                }
                n += 1;
                out.push(sess(format!("c18x{}_{}", w, n), w, 1, ops));
            }
        }
    }
    for w in [40u32, 20, 80] {
        let mut ops = vec![api(Call::SetMode(vec![3], true)), api(Call::Reset)];
        for x in [1u32, w - 7, w, w + 1, w + 8, 100, 125, 131] {
            ops.push(api(Call::CursorToColumn(Some(x))));
            ops.push(api(Call::Tab));
        }
        ops.push(api(Call::ResetMode(vec![3], true)));
        ops.push(api(Call::Reset));
        ops.push(api(Call::CursorToColumn(Some(w - 1))));
        ops.push(api(Call::Tab));
        out.push(sess(format!("c18colm{}", w), w, 2, ops));
    }
    for (i, w) in [4u32, 8, 9, 20, 80].iter().enumerate() {
        for widen in 0..3 {
            let mut ops = vec![api(Call::Tab), api(Call::CursorToColumn(Some(*w))), api(Call::Tab)];
            match widen {
                0 => ops.push(api(Call::Resize(None, Some(w * 2 + 3)))),
                1 => ops.push(api(Call::SetMode(vec![3], true))),
                _ => {
                    ops.push(api(Call::Resize(None, Some(w + 1))));
                    ops.push(api(Call::Resize(None, Some(w * 3))));
                }
            }
            for x in [1u32, *w, w + 1, w * 2, 100, 131] {
                ops.push(api(Call::CursorToColumn(Some(x))));
                ops.push(api(Call::Tab));
            }
            ops.push(api(Call::ClearTabStop(Some(3))));
            ops.push(api(Call::CursorToColumn(Some(1))));
            ops.push(api(Call::Tab));
            ops.push(api(Call::Resize(None, Some(*w))));
            ops.push(api(Call::CursorToColumn(Some(1))));
            ops.push(api(Call::Tab));
            out.push(sess(format!("c18w{}_{}", i, widen), *w, 2, ops));
        }
    }
    out
}

fn enum_c08(tier: &str, r: &mut Rng) -> Vec<Session> {
    let mut out = vec![];
    let maxcode = counts(tier, 130, 9999);
    let documented: Vec<u32> = vec![0, 1, 3, 4, 5, 7, 9, 22, 23, 24, 25, 27, 29, 30, 31, 32, 33, 34, 35, 36, 37, 38, 39,
        40, 41, 42, 43, 44, 45, 46, 47, 48, 49, 90, 91, 92, 93, 94, 95, 96, 97, 100, 101, 102, 103, 104, 105, 106, 107];
    let states: Vec<Vec<u32>> = vec![vec![], vec![1, 3, 4, 5, 7, 9, 31, 42], vec![38, 5, 200, 48, 2, 1, 2, 3]];
    for (si, st) in states.iter().enumerate() {
        let mut cands = vec![];
        for c in 0..=maxcode {
            cands.push(Call::Sgr(vec![c]));
        }
        if tier != "thorough" {
            for _ in 0..60 {
                cands.push(Call::Sgr(vec![r.range(0, 9999)]));
            }
        }
        for key in [38u32, 48] {
            for n in 0..=300 {
                cands.push(Call::Sgr(vec![key, 5, n]));
            }
            for tail in [vec![], vec![5], vec![2], vec![2, 1], vec![2, 1, 2], vec![2, 255, 255, 255], vec![2, 256, 9999, 0],
                         vec![3], vec![0], vec![5, 9999], vec![9999]] {
                let mut v = vec![key];
                v.extend(tail);
                cands.push(Call::Sgr(v.clone()));
                v.push(1);
                cands.push(Call::Sgr(v));
            }
        }
        let prefix = vec![api(Call::Sgr(st.clone())), api(Call::Draw("a".into()))];
        out.push(sess(format!("c08s{}", si), 4, 2, fan_out(r, prefix, &cands, 1, true)));
    }
    // pairs / triples over the documented codes
    let mut cands = vec![];
    let npairs = counts(tier, 600, 0);
    if npairs == 0 {
        for a in &documented {
            for b in &documented {
                cands.push(Call::Sgr(vec![*a, *b]));
            }
        }
    } else {
        for _ in 0..npairs {
            cands.push(Call::Sgr(vec![*r.pick(&documented), *r.pick(&documented)]));
        }
    }
    for _ in 0..counts(tier, 600, 20000) {
        let n = r.range(3, 7);
        cands.push(Call::Sgr((0..n).map(|_| if r.chance(4, 5) { *r.pick(&documented) } else { r.range(0, 300) }).collect()));
    }
    out.push(sess("c08p".into(), 4, 2, fan_out(r, vec![api(Call::Sgr(vec![4, 35]))], &cands, 1, true)));
    // through the parser only: parameters spelled with many digits / leading zeros
    let mut ops = vec![api(Call::Sgr(vec![1, 31, 42])), Op::Snap];
    for body in ["4294967296", "99999999999999999999", "3;99999999999999999999", "38;5;4294967296", "38;5;0000000000000000000000196",
                 "00000000031", "38;2;00000255;4294967297;1", "0000", "1;00000000000000000000000000000000000000", "48;5;18446744073709551616"] {
        ops.push(Op::Feed(format!("\x1b[{}m", body)));
        ops.push(api(Call::Draw("x".into())));
        ops.push(Op::Back);
    }
    out.push(sess("c08d".into(), 4, 2, ops));
    out
}

/// C08: "cells drawn afterwards carry exactly that rendition" - also when the same glyph is redrawn in place
fn enum_c08_redraw() -> Vec<Session> {
    let mut ops = vec![];
    for code in [1u32, 3, 4, 5, 7, 9, 31, 44, 91, 102] {
        for back in [0u32, 22, 23, 24, 25, 27, 29, 39, 49] {
            ops.push(api(Call::Sgr(vec![0])));
            ops.push(api(Call::CursorPosition(Some(1), Some(1))));
            ops.push(api(Call::Draw("x".into())));
            ops.push(api(Call::Sgr(vec![code])));
            ops.push(api(Call::CursorPosition(Some(1), Some(1))));
            ops.push(api(Call::Draw("x".into())));
            ops.push(api(Call::Sgr(vec![back])));
            ops.push(api(Call::CursorPosition(Some(1), Some(1))));
            ops.push(api(Call::Draw("x".into())));
        }
    }
    vec![sess("c08redraw".into(), 3, 1, ops)]
}

fn enum_c12(tier: &str, r: &mut Rng) -> Vec<Session> {
    let mut out = vec![];
    let mut numbers: Vec<u32> = (0..=900).collect();
    numbers.extend([9999u32, 1024, 2048, 4096, 6144, 8192, 25 << 6]);
    if tier == "thorough" {
        numbers = (0..=9999).collect();
    } else {
        for _ in 0..60 {
            numbers.push(r.range(0, 9999));
        }
    }
    let mut cands = vec![];
    for n in &numbers {
        for p in [false, true] {
            cands.push(Call::SetMode(vec![*n], p));
            cands.push(Call::ResetMode(vec![*n], p));
        }
    }
    for _ in 0..counts(tier, 300, 6000) {
        let (v, p) = gen::mode_list(r);
        let mut v = v;
        while v.len() < 2 && r.chance(1, 2) {
            v.push(*r.pick(&[3u32, 5, 6, 7, 25, 4, 20]));
        }
        cands.push(if r.chance(1, 2) { Call::SetMode(v, p) } else { Call::ResetMode(v, p) });
    }
    // the documented modes (both spellings of the number) from every state, never sampled away
    let mut core = vec![];
    for n in [3u32, 4, 5, 6, 7, 20, 25, 96, 128, 160, 192, 224, 640, 800] {
        for p in [false, true] {
            core.push(Call::SetMode(vec![n], p));
            core.push(Call::ResetMode(vec![n], p));
        }
    }
    for a in [5u32, 6, 7, 25, 3] {
        for b in [6u32, 5, 3, 4] {
            core.push(Call::SetMode(vec![a, b], true));
            core.push(Call::ResetMode(vec![a, b], true));
        }
    }
    let nstates = counts(tier, 9, 18);
    for i in 0..nstates {
        let cols = r.range(2, 8);
        let lines = if i % 6 >= 4 { r.range(3, 5) } else { r.range(2, 5) };
        let mut prefix = fill_markers(cols, lines, i % 2 == 1);
        match i % 6 {
            0 if i >= 6 => {
                // DECSCNM on, then cells drawn with SGR 27 (not reverse), dirty set cleared
                prefix.push(api(Call::SetMode(vec![5], true)));
                prefix.push(api(Call::Sgr(vec![27])));
                prefix.push(api(Call::CursorPosition(Some(1), Some(1))));
                prefix.push(api(Call::Draw("xy".into())));
                prefix.push(api(Call::ClearDirty));
            }
            1 if i >= 6 => {
                // the cursor is visible although DECTCEM is not in the mode set (DECRC brought it back) ...
                prefix.push(api(Call::SaveCursor));
                prefix.push(api(Call::ResetMode(vec![25], true)));
                prefix.push(api(Call::RestoreCursor));
            }
            2 if i >= 6 => {
                // ... and hidden although it is
                prefix.push(api(Call::ResetMode(vec![25], true)));
                prefix.push(api(Call::SaveCursor));
                prefix.push(api(Call::SetMode(vec![25], true)));
                prefix.push(api(Call::RestoreCursor));
                prefix.push(api(Call::ResetMode(vec![5], true)));
            }
            4 => {
                // scrolling region with top > 0, origin mode on, cursor away from the region's home
                prefix.push(api(Call::SetMargins(Some(2), Some(lines))));
                prefix.push(api(Call::SetMode(vec![6], true)));
                prefix.push(api(Call::CursorPosition(Some(2), Some(cols))));
            }
            5 => {
                prefix.push(api(Call::SetMargins(Some(2), Some(lines))));
                prefix.push(api(Call::SetMode(vec![6, 5], true)));
                prefix.push(api(Call::SetMode(vec![4], false)));
                prefix.push(api(Call::ResetMode(vec![25], true)));
                prefix.push(api(Call::CursorPosition(Some(1), Some(2))));
            }
            1 => prefix.push(api(Call::SetMode(vec![5, 6], true))),
            2 => {
                prefix.push(api(Call::SetMargins(Some(2), Some(lines))));
                prefix.push(api(Call::SetMode(vec![3], true)));
                prefix.push(api(Call::Draw("abc".into())));
            }
            3 => {
                prefix.push(api(Call::ResetMode(vec![7, 25], true)));
                prefix.push(api(Call::SetMode(vec![4, 20], false)));
                prefix.push(api(Call::SaveCursor));
            }
            _ => {}
        }
        if i % 6 < 4 {
            prefix.push(api(Call::CursorPosition(Some(r.range(1, lines)), Some(r.range(1, cols)))));
        }
        let keep = if tier == "thorough" { 1 } else { 4 };
        out.push(sess(format!("c12c{}", i), cols, lines, fan_out(r, prefix.clone(), &core, 1, true)));
        out.push(sess(format!("c12e{}", i), cols, lines, fan_out(r, prefix, &cands, keep, true)));
    }
    // through the parser: SM/RM right after a skipped or aborted (private) sequence
    let mut ops = vec![Op::Snap];
    for pre in ["\x1b[?25$p", "\x1b[?25\x18", "\x1b[?7\x1a", "\x1b[?1;2$y", "\x1b[4$p", "\x1b[?", "\x1b[?5 >"] {
        for body in ["4h", "4l", "20h", "20l", "25h", "25l", "5h", "6h", "3h", "7l", "?25l", "?4h"] {
            ops.push(Op::Feed(pre.to_string()));
            ops.push(Op::Feed(format!("\x1b[{}", body)));
            ops.push(api(Call::Draw("m".into())));
            ops.push(Op::Back);
        }
    }
    out.push(sess("c12p".into(), 6, 3, ops));
    out
}

fn enum_c14(tier: &str, r: &mut Rng) -> Vec<Session> {
    let mut out = vec![];
    let k = counts(tier, 400, 8000);
    let maxk = counts(tier, 2, 4);
    for i in 0..k {
        let cols = r.range(1, 8);
        let lines = r.range(1, 6);
        let mut ops = fill_markers(cols, lines, false);
        let saves = r.range(0, maxk);
        for _ in 0..saves {
            for _ in 0..r.range(0, 3) {
                let fam = *r.pick(&["move", "sgr", "charset", "mode", "margins"]);
                ops.push(api(gen::call(r, cols, lines, fam)));
            }
            ops.push(api(Call::SaveCursor));
        }
        for _ in 0..r.range(0, 5) {
            let fam = *r.pick(&["move", "sgr", "charset", "mode", "margins", "resize", "draw"]);
            let c = gen::call(r, cols, lines, fam);
            ops.push(api(c));
        }
        for _ in 0..r.range(0, maxk + 1) {
            if r.chance(1, 2) {
                ops.push(Op::Feed("\x1b8".into()));
            } else {
                ops.push(api(Call::RestoreCursor));
            }
        }
        out.push(sess(format!("c14e{}", i), cols, lines, ops));
    }
    // deep nesting: every level restored in reverse order
    for (i, depth) in [33u32, 40, 64, 100, 300].iter().enumerate() {
        if tier != "thorough" && *depth > 100 {
            continue;
        }
        let (cols, lines) = (9u32, 7u32);
        let mut ops = vec![];
        for d in 0..*depth {
            ops.push(api(Call::CursorPosition(Some(d % lines + 1), Some(d % cols + 1))));
            if d % 5 == 0 {
                ops.push(api(Call::Sgr(vec![30 + d % 8])));
            }
            if d == 0 {
                ops.push(api(Call::SetMode(vec![6], true)));
            }
            ops.push(api(Call::SaveCursor));
        }
        ops.push(api(Call::ResetMode(vec![6], true)));
        for _ in 0..*depth + 1 {
            ops.push(api(Call::RestoreCursor));
        }
        out.push(sess(format!("c14deep{}", i), cols, lines, ops));
    }
    // DECRC on an empty stack (fresh, and after balanced pairs) from every region x DECOM x cursor row
    let mut n = 0;
    for lines in 2..=counts(tier, 4, 6) {
        let cols = 3;
        for (m, decom) in regions(lines) {
            for cy in 0..lines {
                if let Some(pl) = place(m, decom, cols, cy, 1) {
                    for balanced in [false, true] {
                        let mut ops = vec![Op::Quiet(true)];
                        ops.extend(region_setup(m, decom));
                        if balanced {
                            ops.push(api(Call::SaveCursor));
                            ops.push(api(Call::RestoreCursor));
                        }
                        ops.extend(pl.clone());
                        ops.push(Op::Quiet(false));
                        ops.push(api(Call::RestoreCursor));
                        ops.push(api(Call::Draw("x".into())));
                        n += 1;
                        out.push(sess(format!("c14z{}", n), cols, lines, ops));
                    }
                }
            }
        }
    }
    out
}

/// C01 / C09: unusual states x every kind of operation.
fn enum_c01(tier: &str, r: &mut Rng) -> Vec<Session> {
    let mut out = vec![];
    let states: Vec<(u32, u32, Vec<Op>)> = vec![
        (80, 5, vec![api(Call::SetMode(vec![3], true)), api(Call::Reset)]),
        (132, 4, vec![]),
        (132, 4, vec![api(Call::SetMode(vec![3], true))]),
        (10, 4, vec![api(Call::SetMode(vec![3], true)), api(Call::SetMode(vec![3], true))]),
        (10, 4, vec![api(Call::SetMode(vec![3], true)), api(Call::Resize(Some(3), Some(7)))]),
        (1, 1, vec![]),
        (1, 1, vec![api(Call::Draw("a".into()))]),
        (2, 1, vec![api(Call::Draw("\u{4e2d}".into()))]),
        (1, 5, vec![api(Call::SetMargins(Some(2), Some(4))), api(Call::SetMode(vec![6], true))]),
        (6, 5, vec![api(Call::SetMargins(Some(2), Some(3))), api(Call::CursorPosition(Some(5), Some(6))), api(Call::Draw("ab".into()))]),
        (6, 5, vec![api(Call::SetMargins(Some(2), Some(3))), api(Call::SetMode(vec![6], true)), api(Call::SaveCursor), api(Call::Resize(Some(2), Some(2)))]),
        (6, 3, vec![api(Call::SetMode(vec![5], true)), api(Call::SetMode(vec![4], false)), api(Call::ResetMode(vec![7], true)), api(Call::Draw("abcdef".into()))]),
        (6, 3, vec![api(Call::Draw("ab\u{4e2d}\u{4e2d}".into())), api(Call::CursorPosition(Some(1), Some(4)))]),
        (8, 3, vec![api(Call::Resize(Some(3), Some(40))), api(Call::SetTabStop), api(Call::CursorPosition(Some(1), Some(39))), api(Call::SetTabStop), api(Call::Resize(Some(3), Some(8)))]),
    ];
    let mut cands: Vec<Call> = vec![];
    for fam in ["draw", "move", "erase", "scroll", "ichdch", "sgr", "mode", "tabs", "save", "margins", "charset", "misc", "resize", "display"] {
        for _ in 0..counts(tier, 12, 60) {
            cands.push(gen::call(r, 6, 4, fam));
        }
    }
    for n in [3u32, 5, 6, 7, 25, 4, 20] {
        for p in [false, true] {
            cands.push(Call::SetMode(vec![n], p));
            cands.push(Call::ResetMode(vec![n], p));
        }
    }
    cands.push(Call::Reset);
    cands.push(Call::AlignmentDisplay);
    cands.push(Call::RestoreCursor);
    cands.push(Call::Display);
    for (i, (cols, lines, prefix)) in states.into_iter().enumerate() {
        out.push(sess(format!("c01w{}", i), cols, lines, fan_out(r, prefix, &cands, 1, true)));
    }
    out
}

/// C20: 256 code points x 4 tables x {G0, G1} x {shifted in, out}, code points > 255, all designator finals.
fn enum_c20(tier: &str, r: &mut Rng) -> Vec<Session> {
    let mut out = vec![];
    let mut n = 0;
    for code in ["B", "0", "U", "V"] {
        for mode in ["(", ")"] {
            for shifted_out in [false, true] {
                let mut ops = vec![Op::Quiet(true), api(Call::DefineCharset(code.into(), mode.into()))];
                ops.push(api(if shifted_out { Call::ShiftOut } else { Call::ShiftIn }));
                ops.push(Op::Snap);
                ops.push(Op::Quiet(false));
                for c in 0u32..256 {
                    ops.push(api(Call::Draw(char::from_u32(c).unwrap().to_string())));
                    ops.push(Op::Back);
                }
                for c in [256u32, 0x2500, 0x4e2d, 0x1f600, 0x301] {
                    ops.push(api(Call::Draw(char::from_u32(c).unwrap().to_string())));
                    ops.push(Op::Back);
                }
                n += 1;
                out.push(sess(format!("c20t{}", n), 3, 1, ops));
            }
        }
    }
    // designator finals through the parser in both modes, and through the API
    for utf8 in [false, true] {
        let mut ops = vec![Op::Utf8(utf8)];
        for fin in 0x20u32..=0x7e {
            for m in ['(', ')'] {
                ops.push(Op::Feed(format!("\x1b{}{}", m, char::from_u32(fin).unwrap())));
                ops.push(Op::Feed("\x0eq\x0fq".into()));
            }
        }
        out.push(sess(format!("c20d{}", utf8 as u32), 6, 1, ops));
    }
    let mut ops = vec![];
    for fin in 0x20u32..=0x7e {
        for m in ["(", ")", "*", "", "(("] {
            ops.push(api(Call::DefineCharset(char::from_u32(fin).unwrap().to_string(), m.to_string())));
        }
    }
    ops.push(api(Call::DefineCharset("".into(), "(".into())));
    ops.push(api(Call::DefineCharset("BB".into(), "(".into())));
    out.push(sess("c20api".into(), 4, 1, ops));
    let _ = (tier, r);
    out
}

/// C04: rows with every pattern of written / never-written cells x cursor column x IRM x DECAWM x text.
fn enum_c04(tier: &str, r: &mut Rng) -> Vec<Session> {
    let mut out = vec![];
    let widths: &[u32] = if tier == "thorough" { &[1, 2, 3, 4, 5, 6] } else { &[2, 4, 5] };
    let mut n = 0;
    for &cols in widths {
        for mask in 0u32..(1 << cols) {
            for irm in [false, true] {
                for awm in [true, false] {
                    let mut prefix = vec![];
                    prefix.push(api(Call::Sgr(vec![32, 44])));
                    for x in 0..cols {
                        if mask & (1 << x) != 0 {
                            prefix.push(api(Call::CursorPosition(Some(1), Some(x + 1))));
                            prefix.push(api(Call::ResetMode(vec![7], true)));
                            prefix.push(api(Call::Draw(char::from_u32('A' as u32 + x).unwrap().to_string())));
                            prefix.push(api(Call::SetMode(vec![7], true)));
                        }
                    }
                    prefix.push(api(Call::Sgr(vec![0, 4, 35])));
                    if irm {
                        prefix.push(api(Call::SetMode(vec![4], false)));
                    }
                    if !awm {
                        prefix.push(api(Call::ResetMode(vec![7], true)));
                    }
                    let mut ops = vec![Op::Quiet(true)];
                    ops.extend(prefix);
                    ops.push(Op::Quiet(false));
                    for cx in 0..=cols {
                        for t in ["x", "\u{4e2d}", "xy", "\u{301}", "\u{4e2d}z"] {
                            if r.chance(1, 2) && tier != "thorough" && cols > 2 {
                                continue;
                            }
                            ops.push(Op::Snap);
                            ops.push(Op::Quiet(true));
                            ops.push(api(Call::CursorPosition(Some(1), Some(cx.min(cols - 1) + 1))));
                            if cx == cols {
                                // pending wrap (the cell in the last column is written by this)
                                ops.push(api(Call::ResetMode(vec![4], false)));
                                ops.push(api(Call::Draw("w".into())));
                                if irm {
                                    ops.push(api(Call::SetMode(vec![4], false)));
                                }
                            }
                            ops.push(Op::Quiet(false));
                            ops.push(api(Call::Draw(t.to_string())));
                            ops.push(Op::Back);
                        }
                    }
                    n += 1;
                    out.push(sess(format!("c04e{}", n), cols, 2, ops));
                }
            }
        }
    }
    out
}

/// C15: histories over a small alphabet in which RIS, DECSC / DECRC, charset designation and shifts,
/// tab stops, modes and margins interleave, with several resets per history.
fn enum_c15(tier: &str, r: &mut Rng) -> Vec<Session> {
    let alphabet: Vec<Call> = vec![
        Call::Reset,
        Call::Reset,
        Call::SaveCursor,
        Call::RestoreCursor,
        Call::DefineCharset("0".into(), "(".into()),
        Call::DefineCharset("U".into(), ")".into()),
        Call::ShiftOut,
        Call::SetTabStop,
        Call::ClearTabStop(Some(0)),
        Call::ClearTabStop(Some(3)),
        Call::CursorPosition(Some(2), Some(9)),
        Call::CursorToColumn(Some(1)),
        Call::SetMode(vec![6], true),
        Call::SetMode(vec![5], true),
        Call::SetMode(vec![4], false),
        Call::ResetMode(vec![7, 25], true),
        Call::SetMargins(Some(2), Some(3)),
        Call::Sgr(vec![7, 31]),
        Call::Draw("q".into()),
        Call::SetTitle("t".into()),
        Call::Resize(Some(3), Some(12)),
        Call::Tab,
    ];
    let mut out = vec![];
    // exhaustive: every history of length <= 4 (5 thorough) over {RIS, DECSC, DECRC, X}, for every X
    // that changes a piece of state RIS has to re-initialise and DECRC can bring back
    let extras: Vec<Call> = vec![
        Call::DefineCharset("0".into(), "(".into()),
        Call::DefineCharset("U".into(), ")".into()),
        Call::ShiftOut,
        Call::Sgr(vec![7, 31, 44]),
        Call::SetMode(vec![6], true),
        Call::ResetMode(vec![7], true),
        Call::ResetMode(vec![25], true),
        Call::SetMode(vec![5], true),
        Call::CursorPosition(Some(3), Some(7)),
        Call::SetMargins(Some(2), Some(3)),
        Call::SetTabStop,
        Call::SetMode(vec![3], true),
    ];
    let maxlen = counts(tier, 4, 5);
    let mut ne = 0;
    for x in &extras {
        let alpha = [Call::Reset, Call::SaveCursor, Call::RestoreCursor, x.clone()];
        let mut frontier: Vec<Vec<usize>> = vec![vec![]];
        for _ in 0..maxlen {
            let mut next = vec![];
            for p in &frontier {
                for a in 0..4 {
                    let mut q = p.clone();
                    q.push(a);
                    next.push(q);
                }
            }
            for q in &next {
                // histories without X are the same for every X: keep them once
                if !q.contains(&3) && ne > 0 {
                    continue;
                }
                if !q.contains(&0) && !q.contains(&2) {
                    continue;
                }
                let mut ops: Vec<Op> = q.iter().map(|a| api(alpha[*a].clone())).collect();
                ops.push(api(Call::Reset));
                ops.push(api(Call::Draw("q".into())));
                ne += 1;
                out.push(sess(format!("c15x{}", ne), 12, 4, ops));
            }
            frontier = next;
        }
    }
    for i in 0..counts(tier, 400, 8000) {
        let n = r.range(3, 14);
        let mut ops = vec![];
        for _ in 0..n {
            let c = r.pick(&alphabet).clone();
            push_cand(r, &mut ops, &c);
        }
        ops.push(api(Call::Reset));
        ops.push(api(Call::Draw("q".into())));
        ops.push(api(Call::Tab));
        out.push(sess(format!("c15e{}", i), *r.pick(&[20u32, 10, 17]), 4, ops));
    }
    out
}

/// Is the recogniser back in its ground state after `s`?  Model-free: a printable fed next is drawn at once.
fn back_in_ground(s: &str, utf8: bool) -> bool {
    use crate::exec::Runner;
    let mut run = Runner::new(4, 1, false);
    {
        let mut t = run.tap.lock().unwrap();
        t.events_only = true;
    }
    run.step(&Op::Utf8(utf8));
    run.step(&Op::Feed(s.to_string()));
    let before = run.tap.lock().unwrap().out.len();
    run.step(&Op::Feed("z".into()));
    let t = run.tap.lock().unwrap();
    t.out[before..].iter().any(|l| l == "E draw 1 122")
}

/// C03: all strings over one representative per character class, exhaustive up to a bounded
/// length with ground-state pruning; events-only sessions.
fn enum_c03(tier: &str, r: &mut Rng) -> Vec<Session> {
    let alphabet: Vec<char> = vec![
        '\x07', '\x08', '\t', '\n', '\x0b', '\x0c', '\r', '\x0e', '\x0f', '\x18', '\x1a', '\x1b', '\u{9b}', '\u{9d}',
        '\u{9c}', '0', '9', ';', '?', '$', ' ', '>', '#', '%', '(', ')', '[', ']', '\\', 'H', 'm', 'c', '8', 'R', 'p', 'P',
        'Z', 'a', '\u{e9}', '\0', '\x7f',
    ];
    let maxlen = counts(tier, 3, 4);
    let mut out = vec![];
    for utf8 in [true, false] {
        let mut frontier: Vec<String> = vec![String::new()];
        let mut all: Vec<String> = vec![];
        for len in 1..=maxlen {
            let mut next = vec![];
            for pre in &frontier {
                for c in &alphabet {
                    // from ground only sequence starters are interesting (text is covered by one char)
                    if pre.is_empty() && !matches!(*c, '\x1b' | '\u{9b}' | '\u{9d}' | '\x07' | '\x0e' | 'a' | '\0') {
                        continue;
                    }
                    let mut s2 = pre.clone();
                    s2.push(*c);
                    all.push(s2.clone());
                    if len < maxlen && !back_in_ground(&s2, utf8) {
                        next.push(s2);
                    }
                }
            }
            frontier = next;
        }
        // pack many strings into each session: one feed per string would leave the parser mid-sequence,
        // so every string gets its own session (events only, cheap)
        for (i, st) in all.iter().enumerate() {
            let mut ops = vec![Op::Utf8(utf8)];
            ops.push(Op::Feed(st.clone()));
            ops.push(Op::Feed("z".into()));
            out.push(Session { columns: 4, lines: 1, bytes: false, events_only: true, id: format!("c03x{}u{}", i, utf8 as u32), ops });
        }
    }
    // pairs / triples of sequences: state must not leak from one sequence into the next
    let firsts: Vec<&str> = vec![
        "\x1b[?25$p", "\x1b[1;2;3;4$x", "\x1b[?25\x18", "\x1b[3\x1a", "\x1b[?7 >", "\x1b]0;t\x07", "\x1b]2;a\x1b\\",
        "\u{9d}1;b\u{9c}", "\x1b%G", "\x1b(B", "\x1b)0", "\x1b#8", "\x1b#3", "\x1b[?25h", "\x1b[5;6H", "\x1b[>c", "\x1b[?1049h",
        "\x1b]R", "\x1b]p", "\x1b]\x07", "\x1b[12;", "\x1b[?", "\x1b[00005", "\u{9b}7\n", "\x1bZ", "\x1b[1;2\x07;3m",
    ];
    let seconds: Vec<&str> = vec![
        "\x1b[4h", "\x1b[?4h", "\x1b[20l", "\x1b[3C", "\x1b[5;6H", "\x1b[m", "\x1b[38;5;1m", "x", "\x1bc", "\x1b]2;a\x07", "\x1b[5B",
        "\u{9b}2J", "\x1b[;H", "\x1b[0000000000000000000000007C", "\x0e", "\x1b7", "\x1b[1;2r",
    ];
    let mut k = 0;
    for utf8 in [true, false] {
        for a in &firsts {
            for b in &seconds {
                for third in ["", "\x1b[2;3H"] {
                    let st = format!("{}{}{}", a, b, third);
                    let mut ops = vec![Op::Utf8(utf8)];
                    if k % 3 == 0 {
                        for ch in gen::split_chars(r, &st) {
                            ops.push(Op::Feed(ch));
                        }
                    } else {
                        ops.push(Op::Feed(st));
                    }
                    ops.push(Op::Feed("z".into()));
                    k += 1;
                    out.push(Session { columns: 4, lines: 1, bytes: false, events_only: true, id: format!("c03p{}", k), ops });
                }
            }
        }
    }
    // random long strings and very long digit runs
    for i in 0..counts(tier, 1500, 40000) {
        let mut st = String::new();
        for _ in 0..r.range(1, 14) {
            match r.below(6) {
                0 => st.push_str(&gen::garbage(r)),
                1 => st.push_str(&"9".repeat(r.range(1, 40) as usize)),
                _ => {
                    let c = gen::call(r, 10, 5, "any");
                    if let Some(t) = gen::render(r, &c) {
                        st.push_str(&t);
                    }
                }
            }
        }
        let mut ops = vec![Op::Utf8(r.chance(1, 2))];
        for ch in gen::split_chars(r, &st) {
            ops.push(Op::Feed(ch));
        }
        out.push(Session { columns: 4, lines: 1, bytes: false, events_only: true, id: format!("c03r{}", i), ops });
    }
    out
}

fn enum_c19(tier: &str, r: &mut Rng) -> Vec<Session> {
    let alphabet: Vec<&str> = vec![
        "a", ";", "\\", "]", " ", "\u{e9}", "\x1bq", "\n", "\x1b[", "\u{4e2d}", "0", "\x0e", "e\u{301}", "\u{212b}",
        "\u{1100}\u{1161}", "\x1b\x07", "\x1b\u{9c}", "\x1b\x1b", "q",
    ];
    let maxlen = counts(tier, 2, 4);
    let mut payloads: Vec<String> = vec![String::new()];
    let mut frontier = vec![String::new()];
    for _ in 0..maxlen {
        let mut next = vec![];
        for p in &frontier {
            for a in &alphabet {
                let mut q = p.clone();
                q.push_str(a);
                next.push(q);
            }
        }
        payloads.extend(next.iter().cloned());
        frontier = next;
    }
    for _ in 0..counts(tier, 200, 4000) {
        let n = r.range(5, 60);
        payloads.push((0..n).map(|_| *r.pick(&alphabet)).collect::<Vec<_>>().concat());
    }
    // long payloads (nothing in the documented behaviour bounds the length of a title)
    for n in [255usize, 256, 1023, 1024, 4094, 4095, 4096, 4097, 8192, 20000] {
        payloads.push("t".repeat(n));
        payloads.push("\u{4e2d}".repeat(n / 3 + 1));
        payloads.push(format!("{};{}", "a".repeat(n / 2), "\u{e9}".repeat(n / 2)));
    }
    let mut out = vec![];
    let codes = ["0", "1", "2", "3", "4", "9", "a", "R", "p", "P", "10", ";"];
    for (i, p) in payloads.iter().enumerate() {
        let intro = *r.pick(&["\x1b]", "\u{9d}"]);
        let term = *r.pick(&["\x07", "\u{9c}", "\x1b\\"]);
        let code = if r.chance(3, 5) { *r.pick(&["0", "1", "2"]) } else { *r.pick(&codes) };
        let st = format!("{}{};{}{}", intro, code, p, term);
        let mut ops = vec![api(Call::Draw("k".into()))];
        match i % 7 {
            // an abandoned CSI with pending digits right before the string
            3 => ops.push(Op::Feed((*r.pick(&["\x1b[12$p", "\x1b[?2026$p", "\x1b[34\x18", "\x1b[5;6\x1a"])).into())),
            // 8-bit mode with the graphics set active: the payload is not drawn text, it is not translated
            5 => {
                ops.insert(0, Op::Utf8(false));
                ops.push(Op::Feed((*r.pick(&["\x0e", "\x1b(0", "\x1b)U\x0e"])).into()));
            }
            _ => {}
        }
        if r.chance(1, 3) {
            for ch in gen::split_chars(r, &st) {
                ops.push(Op::Feed(ch));
            }
        } else {
            ops.push(Op::Feed(st));
        }
        ops.push(Op::Feed("z".into()));
        out.push(sess(format!("c19e{}", i), 6, 2, ops));
    }
    out
}

/// C11: structured byte strings, events only.
fn enum_c11(tier: &str, r: &mut Rng) -> Vec<Session> {
    let mut out = vec![];
    let mut strings: Vec<Vec<u8>> = vec![];
    for a in 0u32..256 {
        strings.push(vec![a as u8]);
    }
    // lead x first-continuation classes
    let conts: [u8; 12] = [0x00, 0x41, 0x7f, 0x80, 0x8f, 0x90, 0x9f, 0xa0, 0xbf, 0xc0, 0xe0, 0xff];
    for lead in 0xc0u32..=0xff {
        for c1 in conts {
            strings.push(vec![lead as u8, c1]);
            for c2 in [0x41u8, 0x80, 0xbf, 0xc2] {
                strings.push(vec![lead as u8, c1, c2]);
                if lead >= 0xf0 {
                    for c3 in [0x41u8, 0x80, 0xbf] {
                        strings.push(vec![lead as u8, c1, c2, c3]);
                    }
                }
            }
        }
    }
    if tier == "thorough" {
        for a in 0x80u32..256 {
            for b in 0u32..256 {
                strings.push(vec![a as u8, b as u8]);
            }
        }
    }
    for (i, st) in strings.iter().enumerate() {
        // every split point, plus a trailing ASCII byte to flush
        let cut = r.below(st.len() as u32 + 1) as usize;
        let mut ops = vec![];
        ops.push(Op::FeedB(st[..cut].to_vec()));
        ops.push(Op::FeedB(st[cut..].to_vec()));
        ops.push(Op::FeedB(b"Z".to_vec()));
        out.push(Session { columns: 4, lines: 1, bytes: true, events_only: true, id: format!("c11x{}", i), ops });
    }
    // dense runs of ill-formed input in a single chunk
    let units: [&[u8]; 8] = [b"\xff", b"\x80", b"\xed\xa0\x80", b"\xc0", b"\xf5", b"\xe2\x82", b"\xf0\x9f", b"\xc3("];
    for (ui, u) in units.iter().enumerate() {
        for n in [1usize, 2, 3, 5, 8, 13, 19, 20, 21, 24, 33, 64, 200] {
            let mut b: Vec<u8> = vec![];
            for _ in 0..n {
                b.extend_from_slice(u);
            }
            b.extend_from_slice(b"end");
            let ops = vec![Op::FeedB(b), Op::FeedB(b"Z".to_vec())];
            out.push(Session { columns: 4, lines: 1, bytes: true, events_only: true, id: format!("c11d{}n{}", ui, n), ops });
        }
    }
    // byte-order marks: at the very start, after every kind of mode switch, split across feeds
    let boms: [&[u8]; 6] = [b"\xef\xbb\xbf", b"\xff\xfe", b"\xfe\xff", b"\xef\xbb", b"\xef\xbb\xbf\xef\xbb\xbf", b"\xff\xfeA\x00"];
    let switches: [&[&str]; 7] = [&[], &["@", "G"], &["@", "8"], &["G"], &["8"], &["@", "G", "@", "G"], &["x"]];
    let mut nb = 0;
    for bom in boms {
        for sw in switches {
            for pre in [&b""[..], &b"a"[..], &b"\xe4\xb8"[..]] {
                for split in [false, true] {
                    let mut ops = vec![];
                    if !pre.is_empty() {
                        ops.push(Op::FeedB(pre.to_vec()));
                    }
                    for c in sw.iter() {
                        ops.push(Op::Charset((*c).into()));
                    }
                    if split {
                        for x in bom {
                            ops.push(Op::FeedB(vec![*x]));
                        }
                    } else {
                        ops.push(Op::FeedB(bom.to_vec()));
                    }
                    ops.push(Op::FeedB(b"ABCD\xc3\xa9Z".to_vec()));
                    nb += 1;
                    out.push(Session { columns: 8, lines: 2, bytes: true, events_only: nb % 2 == 0, id: format!("c11b{}", nb), ops });
                }
            }
        }
    }
    // mode switches between chunks
    for i in 0..counts(tier, 300, 6000) {
        let mut ops = vec![];
        for _ in 0..r.range(2, 8) {
            match r.below(5) {
                0 => ops.push(Op::Charset((*r.pick(&["@", "G", "8", "x", ""])).into())),
                _ => {
                    let b = gen::utf8_garbage(r);
                    for ch in gen::split_bytes(r, &b) {
                        ops.push(Op::FeedB(ch));
                    }
                }
            }
        }
        ops.push(Op::FeedB(b"Z".to_vec()));
        out.push(Session { columns: 6, lines: 2, bytes: true, events_only: r.chance(1, 2), id: format!("c11m{}", i), ops });
    }
    out
}

pub fn generate(prop: &str, tier: &str, seed: u64) -> Vec<Session> {
    let mut r = Rng::new(seed ^ (prop.bytes().fold(0u64, |a, b| a * 131 + b as u64)));
    let mut out = vec![];
    let focus = focus_of(prop);
    let nsess = counts(tier, 200, 4000);
    for i in 0..nsess {
        let mut rr = r.fork();
        let bytes = match prop {
            "C11" => true,
            _ => rr.chance(1, 4),
        };
        let via = match prop {
            "C03" | "C19" => 1,
            _ => rr.below(3),
        };
        let nops = rr.range(5, 60);
        out.push(gen::session(&mut rr, format!("{}g{}", prop, i), focus, nops, via, bytes));
    }
    if !matches!(prop, "C02" | "C03" | "C11" | "C17b") {
        out.extend(zoo_sessions(prop, tier, &mut r));
    }
    out.extend(odd_param_sessions(prop, &mut r));
    if matches!(prop, "C02" | "C03" | "C08" | "C12" | "C01") {
        out.extend(long_param_sessions(prop, &mut r));
    }
    if matches!(prop, "C01" | "C03" | "C05") {
        out.extend(big_number_sessions(prop));
    }
    if matches!(prop, "C03" | "C05" | "C19" | "C01" | "C02") {
        out.extend(impostor_sessions());
    }
    if matches!(prop, "C20" | "C11" | "C02" | "C04") {
        out.extend(eightbit_utf8_lookalikes());
    }
    if matches!(prop, "C14" | "C09" | "C16" | "C01") {
        out.extend(nested_saves_then_shrink());
    }
    match prop {
        "C05" => out.extend(enum_c05(tier, &mut r)),
        "C06" => out.extend(enum_c06(tier, &mut r)),
        "C07" => out.extend(enum_c07(tier, &mut r)),
        "C08" => {
            out.extend(enum_c08(tier, &mut r));
            out.extend(enum_c08_redraw());
        }
        "C12" => out.extend(enum_c12(tier, &mut r)),
        "C13" => out.extend(enum_c13(tier, &mut r)),
        "C14" => out.extend(enum_c14(tier, &mut r)),
        "C16" => out.extend(enum_c16(tier, &mut r)),
        "C18" => out.extend(enum_c18(tier, &mut r)),
        "C20" => out.extend(enum_c20(tier, &mut r)),
        "C15" => out.extend(enum_c15(tier, &mut r)),
        "C03" => {
            out.extend(enum_c03(tier, &mut r));
            out.extend(enum_c19(tier, &mut r));
        }
        "C19" => out.extend(enum_c19(tier, &mut r)),
        "C11" => out.extend(enum_c11(tier, &mut r)),
        "C01" => {
            out.extend(enum_c01(tier, &mut r));
            // bigger geometries incl. 140x40 and the 132-column switch, hostile streams
            for i in 0..counts(tier, 40, 800) {
                let mut rr = r.fork();
                let by = rr.chance(1, 2);
                let mut s = gen::session(&mut rr, format!("C01big{}", i), "any", 40, 2, by);
                s.columns = *rr.pick(&[80u32, 132, 140, 1, 2]);
                s.lines = *rr.pick(&[24u32, 40, 1, 2]);
                out.push(s);
            }
            out.extend(enum_c11(tier, &mut r).into_iter().take(counts(tier, 400, 4000) as usize));
        }
        "C09" | "C17" => {
            out.extend(enum_c01(tier, &mut r));
            out.extend(enum_c16(tier, &mut r).into_iter().take(counts(tier, 60, 2000) as usize));
            out.extend(enum_c12(tier, &mut r).into_iter().take(2));
            // every region x cursor row x scrolling operation, every cursor position x movement
            let c6 = enum_c06(tier, &mut r);
            let step = if tier == "thorough" { 1 } else { 3 };
            out.extend(c6.into_iter().step_by(step));
            let c5 = enum_c05(tier, &mut r);
            out.extend(c5.into_iter().step_by(step));
            out.extend(enum_c18(tier, &mut r).into_iter().step_by(4));
            out.extend(enum_c08(tier, &mut r).into_iter().take(1));
            if prop == "C17" {
                out.extend(generate("C17b", tier, seed).into_iter().filter(|s| s.id.starts_with("C17bd")));
                out.extend(enum_c07(tier, &mut r).into_iter().step_by(step));
                out.extend(enum_c13(tier, &mut r).into_iter().step_by(step * 2));
                // two sessions in three are run by an embedder that repaints (clears the dirty set)
                // after every call, so that each operation has to account for its own rows
                for (k, s) in out.iter_mut().enumerate() {
                    if k % 3 != 0 {
                        s.ops.insert(0, Op::AutoClear(true));
                    }
                }
            }
        }
        "C04" | "C10" | "C17b" => {
            if prop == "C04" {
                out.extend(enum_c04(tier, &mut r));
            }
            // draw-heavy sessions on tiny screens with every mode combination
            for i in 0..counts(tier, 300, 6000) {
                let cols = r.range(1, 5);
                let lines = r.range(1, 4);
                let mut ops = vec![];
                if r.chance(1, 2) { ops.push(api(Call::SetMode(vec![4], false))); }
                if r.chance(1, 3) { ops.push(api(Call::ResetMode(vec![7], true))); }
                if r.chance(1, 3) { ops.push(api(Call::SetMode(vec![20], false))); }
                if r.chance(1, 4) { ops.push(api(Call::SetMode(vec![5], true))); }
                if r.chance(1, 3) && lines >= 2 { ops.push(api(Call::SetMargins(Some(1), Some(lines.min(2))))); }
                if r.chance(1, 4) { ops.push(api(Call::ShiftOut)); }
                if r.chance(1, 3) { ops.push(api(Call::Sgr(gen::sgr_list(&mut r)))); }
                for _ in 0..r.range(1, 8) {
                    match r.below(9) {
                        0 => ops.push(api(Call::CursorPosition(Some(r.range(1, lines)), Some(r.range(1, cols))))),
                        1 => ops.push(api(Call::Display)),
                        2 => ops.push(api(Call::CarriageReturn)),
                        3 => ops.push(api(Call::ClearDirty)),
                        _ => ops.push(api(Call::Draw(gen::text(&mut r, 5)))),
                    }
                }
                ops.push(api(Call::Display));
                out.push(sess(format!("{}d{}", prop, i), cols, lines, ops));
            }
        }
        _ => {}
    }
    out
}


/// C10: sparse screens (a few cells far apart, never-written rows and row ends) followed by an operation that
/// reads, moves or clips cells; the metamorphic run interposes display() at every position of each
fn c10_structured_bases() -> Vec<Session> {
    let cup = |l: u32, c: u32| api(Call::CursorPosition(Some(l), Some(c)));
    let dr = |t: &str| api(Call::Draw(t.to_string()));
    let a = api;
    let prefixes: Vec<Vec<Op>> = vec![
        vec![cup(1, 8), dr("x"), cup(3, 1), dr("y")],
        vec![cup(2, 3), dr("\u{4e2d}"), cup(4, 8), dr("z"), cup(1, 1), dr("ab")],
        vec![a(Call::Sgr(vec![31])), cup(1, 1), dr("ab"), cup(3, 6), dr("q")],
        vec![cup(1, 1), dr("abcdefgh"), cup(3, 5), dr("k")],
    ];
    let mut follow: Vec<Vec<Op>> = vec![
        vec![a(Call::Resize(None, Some(3))), a(Call::Resize(None, Some(8)))],
        vec![a(Call::Resize(None, Some(7))), a(Call::Resize(None, Some(9)))],
        vec![a(Call::Resize(Some(2), None)), a(Call::Resize(Some(4), None))],
        vec![a(Call::SetMode(vec![5], true))],
        vec![a(Call::SetMode(vec![5], true)), a(Call::ResetMode(vec![5], true))],
        vec![a(Call::SetMode(vec![3], true)), a(Call::ResetMode(vec![3], true))],
        vec![a(Call::AlignmentDisplay)],
        vec![cup(4, 1), a(Call::Index)],
        vec![cup(1, 1), a(Call::ReverseIndex)],
        vec![a(Call::SetMargins(Some(2), Some(3))), cup(3, 1), a(Call::Index), cup(2, 1), a(Call::ReverseIndex)],
        vec![a(Call::SetMode(vec![4], false)), cup(1, 2), dr("I"), cup(2, 1), dr("J")],
        vec![a(Call::Reset)],
    ];
    for r in 1..=4u32 {
        follow.push(vec![cup(r, 1), dr("\u{301}")]);
        follow.push(vec![cup(r, 8), dr("w"), dr("\u{301}")]);
        for c in [1u32, 4, 8] {
            follow.push(vec![cup(r, c), a(Call::InsertCharacters(Some(2)))]);
            follow.push(vec![cup(r, c), a(Call::DeleteCharacters(Some(2)))]);
            follow.push(vec![cup(r, c), a(Call::EraseCharacters(Some(3)))]);
        }
        follow.push(vec![cup(r, 1), a(Call::InsertLines(Some(1)))]);
        follow.push(vec![cup(r, 1), a(Call::DeleteLines(Some(1)))]);
        follow.push(vec![cup(r, 4), a(Call::EraseInLine(Some(1)))]);
        follow.push(vec![cup(r, 4), a(Call::EraseInDisplay(Some(0)))]);
    }
    let mut out = vec![];
    let mut n = 0;
    for p in &prefixes {
        for f in &follow {
            let mut ops = p.clone();
            ops.extend(f.clone());
            // make what the operation did visible in later state as well: widen, tab, draw
            ops.push(a(Call::Resize(Some(5), Some(10))));
            n += 1;
            out.push(sess(format!("c10s{}", n), 8, 4, ops));
        }
    }
    out
}

/// Final observation of a session run on a fresh runner (None if it died).
fn final_obs(s: &Session, with_dirty: bool, with_sp: bool) -> Result<String, String> {
    use crate::exec::Runner;
    let r = std::panic::catch_unwind(std::panic::AssertUnwindSafe(|| {
        let mut r = Runner::new(s.columns, s.lines, s.bytes);
        {
            let mut t = r.tap.lock().unwrap();
            t.quiet = true;
        }
        for op in &s.ops {
            r.step(op);
            if r.dead() {
                return Err("panic".to_string());
            }
        }
        let t = match r.tap.lock() {
            Ok(g) => g,
            Err(p) => p.into_inner(),
        };
        Ok(crate::dump::observe(&t.screen, with_dirty, with_sp))
    }));
    match r {
        Ok(x) => x,
        Err(_) => Err("panic".to_string()),
    }
}

fn sp_count(obs: &str) -> Option<usize> {
    obs.split_whitespace().find(|t| t.starts_with("sp")).and_then(|t| t[2..].parse().ok())
}

fn strip_sp(obs: &str) -> String {
    obs.split_whitespace().filter(|t| !t.starts_with("sp")).collect::<Vec<_>>().join(" ")
}

/// Merge all consecutive feeds of a session into single feeds.
fn merge_feeds(s: &Session) -> Session {
    let mut ops: Vec<Op> = vec![];
    for op in &s.ops {
        match (ops.last_mut(), op) {
            (Some(Op::Feed(a)), Op::Feed(b)) => a.push_str(b),
            (Some(Op::FeedB(a)), Op::FeedB(b)) => a.extend_from_slice(b),
            _ => ops.push(op.clone()),
        }
    }
    Session { ops, ..s.clone() }
}

fn rechunk(r: &mut Rng, s: &Session, mode: u32) -> Session {
    let mut ops = vec![];
    for op in &s.ops {
        match op {
            Op::Feed(t) => {
                if mode == 0 {
                    for c in t.chars() {
                        ops.push(Op::Feed(c.to_string()));
                    }
                } else {
                    for ch in gen::split_chars(r, t) {
                        ops.push(Op::Feed(ch));
                    }
                }
            }
            Op::FeedB(b) => {
                if mode == 0 {
                    for x in b {
                        ops.push(Op::FeedB(vec![*x]));
                    }
                } else {
                    for ch in gen::split_bytes(r, b) {
                        ops.push(Op::FeedB(ch));
                    }
                }
            }
            o => ops.push(o.clone()),
        }
    }
    Session { ops, ..s.clone() }
}

/// A stream-only session (everything through the parser), for C02.
fn stream_session(r: &mut Rng, id: String, bytes: bool, nops: u32) -> Session {
    let (cols, lines) = gen::geometry(r);
    let mut text = String::new();
    let mut raw: Vec<u8> = vec![];
    let eight_bit = bytes && r.chance(1, 4);
    for _ in 0..nops {
        if r.chance(1, 8) {
            let g = gen::garbage(r);
            text.push_str(&g);
            raw.extend_from_slice(g.as_bytes());
            continue;
        }
        if bytes && r.chance(1, 8) {
            raw.extend_from_slice(&gen::utf8_garbage(r));
            continue;
        }
        if !eight_bit && r.chance(1, 12) {
            // "select other coding system" in the stream, followed by non-ASCII text
            let g = format!("\x1b%{}{}", *r.pick(&["@", "G", "8", "x"]), "\u{e9}\u{4e2d}a");
            text.push_str(&g);
            raw.extend_from_slice(g.as_bytes());
            continue;
        }
        let c = gen::call(r, cols, lines, "any");
        if let Some(t) = gen::render(r, &c) {
            text.push_str(&t);
            if eight_bit {
                raw.extend(t.chars().map(|c| if (c as u32) < 256 { c as u32 as u8 } else { b'?' }));
            } else {
                raw.extend_from_slice(t.as_bytes());
            }
        }
    }
    let mut ops = vec![];
    if eight_bit {
        ops.push(Op::Charset("@".into()));
    }
    if bytes {
        ops.push(Op::FeedB(raw));
    } else {
        ops.push(Op::Feed(text));
    }
    Session { columns: cols, lines, bytes, events_only: false, id, ops }
}

fn captured_sessions() -> Vec<(String, Vec<u8>)> {
    let mut out = vec![];
    for name in ["cat-gpl3", "find-etc", "htop", "ls", "mc", "top", "vi"] {
        if let Ok(b) = std::fs::read(format!("/repo/assets/captured/{}.input", name)) {
            out.push((name.to_string(), b));
        }
    }
    out
}

pub struct MetaOut {
    pub lines: Vec<String>,
    pub fails: Vec<(String, String)>, // (description, session text(s))
}

pub fn meta(prop: &str, tier: &str, seed: u64) -> String {
    let mut r = Rng::new(seed ^ 0x5151 ^ (prop.bytes().fold(0u64, |a, b| a * 131 + b as u64)));
    let mut out = String::new();
    let mut n = 0u32;
    let mut nfail = 0u32;
    let mut sample = String::new();
    let fail = |out: &mut String, what: &str, a: &Session, b: &Session| {
        out.push_str(&format!("METAFAIL {} {}\n", prop, what));
        out.push_str("#A\n");
        out.push_str(&a.text());
        out.push_str("#B\n");
        out.push_str(&b.text());
        out.push_str("#END\n");
    };
    match prop {
        "C02" | "C11" => {
            let k = counts(tier, 300, 6000);
            for i in 0..k {
                let bytes = prop == "C11" || r.chance(1, 2);
                let nops = r.range(3, 40);
                let base = stream_session(&mut r, format!("{}m{}", prop, i), bytes, nops);
                let whole = final_obs(&base, true, true);
                for mode in 0..3 {
                    let re = rechunk(&mut r, &base, mode);
                    let got = final_obs(&re, true, true);
                    n += 1;
                    if got != whole {
                        nfail += 1;
                        fail(&mut out, "chunking changes the final state", &base, &re);
                    }
                }
                if i == 0 {
                    sample = base.text();
                }
            }
            // every 2-way split of short streams
            let k2 = counts(tier, 150, 3000);
            for i in 0..k2 {
                let bytes = prop == "C11" || r.chance(1, 2);
                let base = stream_session(&mut r, format!("{}s{}", prop, i), bytes, 2);
                let whole = final_obs(&base, true, true);
                let len = base.ops.iter().map(|o| match o { Op::Feed(t) => t.chars().count(), Op::FeedB(b) => b.len(), _ => 0 }).sum::<usize>();
                for cut in 0..=len.min(40) {
                    let mut ops = vec![];
                    for op in &base.ops {
                        match op {
                            Op::Feed(t) => {
                                let cs: Vec<char> = t.chars().collect();
                                let c = cut.min(cs.len());
                                ops.push(Op::Feed(cs[..c].iter().collect()));
                                ops.push(Op::Feed(cs[c..].iter().collect()));
                            }
                            Op::FeedB(b) => {
                                let c = cut.min(b.len());
                                ops.push(Op::FeedB(b[..c].to_vec()));
                                ops.push(Op::FeedB(b[c..].to_vec()));
                            }
                            o => ops.push(o.clone()),
                        }
                    }
                    let re = Session { ops, ..base.clone() };
                    n += 1;
                    if final_obs(&re, true, true) != whole {
                        nfail += 1;
                        fail(&mut out, "2-way split changes the final state", &base, &re);
                    }
                }
            }
            // captured sessions under random chunkings
            let reps = counts(tier, 3, 40);
            for (name, data) in captured_sessions() {
                let base = Session { columns: 80, lines: 24, bytes: true, events_only: false, id: format!("cap-{}", name), ops: vec![Op::FeedB(data)] };
                let whole = final_obs(&base, true, true);
                for _ in 0..reps {
                    let re = rechunk(&mut r, &base, 1);
                    n += 1;
                    if final_obs(&re, true, true) != whole {
                        nfail += 1;
                        fail(&mut out, "captured session: chunking changes the final state", &base, &re);
                    }
                }
            }
        }
        "C10" => {
            let k = counts(tier, 400, 8000);
            for i in 0..k {
                let mut rr = r.fork();
                let nops = rr.range(2, 30);
                let via = rr.below(3);
                let bytes = rr.chance(1, 5);
                // display() materialises what it reads: any operation that treats a stored blank differently from
                // an absent cell would show, so the base histories come from every family, not only from drawing
                let focus = ["draw", "any", "resize", "ichdch", "scroll", "erase", "mode", "draw", "any", "misc"][i as usize % 10];
                let base0 = gen::session(&mut rr, format!("C10m{}", i), focus, nops, via, bytes);
                // the base history has no display() at all
                let base = Session { ops: base0.ops.iter().filter(|o| !matches!(o, Op::Api(Call::Display))).cloned().collect(), ..base0 };
                let want = final_obs(&base, true, true);
                for _ in 0..3 {
                    let mut ops = vec![];
                    for op in &base.ops {
                        if rr.chance(1, 3) {
                            ops.push(Op::Api(Call::Display));
                            if rr.chance(1, 4) {
                                ops.push(Op::Api(Call::Display));
                            }
                        }
                        ops.push(op.clone());
                    }
                    ops.push(Op::Api(Call::Display));
                    let re = Session { ops, ..base.clone() };
                    n += 1;
                    if final_obs(&re, true, true) != want {
                        nfail += 1;
                        fail(&mut out, "interposed display() changes the final state", &base, &re);
                    }
                }
                if i == 0 {
                    sample = base.text();
                }
            }
            // sparse screens x operations that read or move cells x display() at every single position
            for base in c10_structured_bases() {
                let want = final_obs(&base, true, true);
                for pos in 0..=base.ops.len() + 1 {
                    let mut ops = vec![];
                    for (k, op) in base.ops.iter().enumerate() {
                        if k == pos || pos == base.ops.len() + 1 {
                            ops.push(Op::Api(Call::Display));
                        }
                        ops.push(op.clone());
                    }
                    ops.push(Op::Api(Call::Display));
                    let re = Session { ops, ..base.clone() };
                    n += 1;
                    if final_obs(&re, true, true) != want {
                        nfail += 1;
                        fail(&mut out, "interposed display() changes the final state", &base, &re);
                        break;
                    }
                }
            }
        }
        "C15" => {
            let k = counts(tier, 400, 8000);
            for i in 0..k {
                let mut rr = r.fork();
                let nh = rr.range(0, 30);
                let nt = rr.range(1, 20);
                let via_h = rr.below(3);
                let h = gen::session_opts(&mut rr, format!("C15h{}", i), "any", nh, via_h, false, false);
                // geometry at the point of RIS
                let mut probe = h.clone();
                probe.ops.push(Op::Api(Call::Reset));
                let (cols, lines, depth) = {
                    use crate::exec::Runner;
                    let mut run = Runner::new(probe.columns, probe.lines, false);
                    run.tap.lock().unwrap().quiet = true;
                    for op in &probe.ops {
                        run.step(op);
                    }
                    let t = run.tap.lock().unwrap();
                    (t.screen.columns, t.screen.lines, t.screen.savepoints.len())
                };
                // continuation without DECRC, API level or parser level
                let mut t_ops = vec![];
                let mut c2 = cols;
                let mut l2 = lines;
                for _ in 0..nt {
                    let c = gen::call(&mut rr, c2, l2, "any");
                    if matches!(c, Call::RestoreCursor) {
                        continue;
                    }
                    if let Call::Resize(l, c3) = &c {
                        l2 = l.unwrap_or(l2);
                        c2 = c3.unwrap_or(c2);
                    }
                    if rr.chance(1, 2) {
                        if let Some(s) = gen::render(&mut rr, &c) {
                            t_ops.push(Op::Feed(s));
                            continue;
                        }
                    }
                    t_ops.push(Op::Api(c));
                }
                let mut a = h.clone();
                if rr.chance(1, 2) {
                    a.ops.push(Op::Api(Call::Reset));
                } else {
                    a.ops.push(Op::Feed("\x1bc".to_string()));
                }
                let just_reset = a.clone();
                a.ops.extend(t_ops.clone());
                let fresh0 = Session { columns: cols, lines, bytes: false, events_only: false, id: format!("C15f{}", i), ops: vec![] };
                let fresh = Session { ops: t_ops.clone(), ..fresh0.clone() };
                n += 1;
                // (1) right after RIS: equals a new screen, every row dirty
                let ra = final_obs(&just_reset, true, false);
                let rf = final_obs(&fresh0, true, false);
                if ra.as_ref().map(|s| strip_sp(s)) != rf.as_ref().map(|s| strip_sp(s)) {
                    nfail += 1;
                    fail(&mut out, "state after RIS differs from a new screen", &just_reset, &fresh0);
                    continue;
                }
                // (2) same continuation, same state (stack depth differs by the depth at RIS)
                let oa = final_obs(&a, true, false);
                let of = final_obs(&fresh, true, false);
                let same = match (&oa, &of) {
                    (Ok(x), Ok(y)) => strip_sp(x) == strip_sp(y) && sp_count(x) == sp_count(y).map(|d| d + depth),
                    _ => false,
                };
                if !same {
                    nfail += 1;
                    fail(&mut out, "continuation after RIS differs from the same input on a new screen", &a, &fresh);
                }
                if i == 0 {
                    sample = a.text();
                }
            }
        }
        _ => {}
    }
    let _ = merge_feeds;
    out.push_str(&format!("METASUMMARY prop={} evaluations={} failures={}\n", prop, n, nfail));
    out.push_str("#SAMPLE\n");
    out.push_str(&sample);
    out
}

/// The model-free metamorphic relations of C10 and C02 applied to GIVEN sessions (those the
/// coverage-guided search proposed): the search reaches the code, this judges it without any model.
pub fn meta_on(prop: &str, sessions: &[Session], seed: u64) -> String {
    let mut r = Rng::new(seed ^ 0x7171);
    let mut out = String::new();
    let mut n = 0u32;
    let mut nfail = 0u32;
    let fail = |out: &mut String, what: &str, a: &Session, b: &Session| {
        out.push_str(&format!("METAFAIL {} {}\n", prop, what));
        out.push_str("#A\n");
        out.push_str(&a.text());
        out.push_str("#B\n");
        out.push_str(&b.text());
        out.push_str("#END\n");
    };
    for s in sessions {
        if nfail >= 5 {
            break;
        }
        match prop {
            "C10" => {
                // the history without any display(), against display() after every operation and at random places
                let base = Session { ops: s.ops.iter().filter(|o| !matches!(o, Op::Api(Call::Display))).cloned().collect(), ..s.clone() };
                if base.ops.is_empty() {
                    continue;
                }
                let want = final_obs(&base, true, true);
                if want.is_err() {
                    continue;
                }
                for mode in 0..2 {
                    let mut ops = vec![];
                    for op in &base.ops {
                        ops.push(op.clone());
                        if mode == 0 || r.chance(1, 3) {
                            ops.push(Op::Api(Call::Display));
                        }
                    }
                    let re = Session { ops, ..base.clone() };
                    n += 1;
                    if final_obs(&re, true, true) != want {
                        nfail += 1;
                        fail(&mut out, "interposed display() changes the final state", &base, &re);
                        break;
                    }
                }
            }
            "C02" => {
                // one feed of everything between two non-feed operations, against one feed per unit and a random cut
                let whole = merge_feeds(s);
                let want = final_obs(&whole, true, true);
                if want.is_err() {
                    continue;
                }
                for mode in 0..2 {
                    let re = rechunk(&mut r, &whole, mode);
                    n += 1;
                    if final_obs(&re, true, true) != want {
                        nfail += 1;
                        fail(&mut out, "C02 chunking changes the final state", &whole, &re);
                        break;
                    }
                }
            }
            _ => {}
        }
    }
    out.push_str(&format!("METASUMMARY prop={} evaluations={} failures={}\n", prop, n, nfail));
    out
}
