//! Per-property session streams (generators + bounded-exhaustive enumerations)
//! and the model-free metamorphic checks.

use crate::call::Call;
use crate::exec::{Op, Session};
use crate::gen::{self, Rng};

fn focus_of(prop: &str) -> &'static str {
    match prop {
        "C04" => "draw",
        "C05" => "move",
        "C06" => "scroll",
        "C07" => "erase",
        "C08" => "sgr",
        "C10" => "display",
        "C12" => "mode",
        "C13" => "ichdch",
        "C14" => "save",
        "C16" => "resize",
        "C18" => "tabs",
        "C20" => "charset",
        "C15" => "misc",
        _ => "any",
    }
}

fn counts(tier: &str, quick: u32, thorough: u32) -> u32 {
    if tier == "thorough" {
        thorough
    } else {
        quick
    }
}

fn fill_markers(cols: u32, lines: u32, sparse: bool) -> Vec<Op> {
    let mut ops = vec![];
    for y in 0..lines {
        if sparse && y % 2 == 1 {
            continue;
        }
        ops.push(Op::Api(Call::CursorPosition(Some(y + 1), Some(1))));
        let t: String = (0..cols)
            .map(|x| char::from_u32('A' as u32 + ((y * cols + x) % 58)).unwrap())
            .collect();
        ops.push(Op::Api(Call::Sgr(vec![31 + (y % 6), 41 + ((y + 2) % 6)])));
        // draw char by char without wrapping at the end
        ops.push(Op::Api(Call::ResetMode(vec![7], true)));
        ops.push(Op::Api(Call::Draw(t)));
        ops.push(Op::Api(Call::SetMode(vec![7], true)));
    }
    ops.push(Op::Api(Call::Sgr(vec![0, 1, 35])));
    ops
}

fn param_set(size: u32) -> Vec<Option<u32>> {
    let mut v = vec![None, Some(0)];
    for k in 1..=(size + 2) {
        v.push(Some(k));
    }
    v.push(Some(9999));
    v
}

/// (margins, decom) variants for a geometry: None or every region, DECOM off/on.
fn regions(lines: u32) -> Vec<(Option<(u32, u32)>, bool)> {
    let mut out = vec![(None, false), (None, true)];
    for top in 0..lines {
        for bottom in (top + 1)..lines {
            out.push((Some((top, bottom)), false));
            out.push((Some((top, bottom)), true));
        }
    }
    out
}

fn region_setup(m: Option<(u32, u32)>, decom: bool) -> Vec<Op> {
    let mut v = vec![];
    if let Some((t, b)) = m {
        v.push(Op::Api(Call::SetMargins(Some(t + 1), Some(b + 1))));
    }
    if decom {
        v.push(Op::Api(Call::SetMode(vec![6], true)));
    }
    v
}

/// Ops that put the cursor at (cy, cx) (cx == cols: pending wrap) in a state
/// prepared by region_setup; None if the position is not reachable this way.
fn place(m: Option<(u32, u32)>, decom: bool, cols: u32, cy: u32, cx: u32) -> Option<Vec<Op>> {
    let mut v = vec![];
    let line = match (m, decom) {
        (Some((t, b)), true) => {
            if cy < t || cy > b {
                return None;
            }
            cy - t + 1
        }
        _ => cy + 1,
    };
    v.push(Op::Api(Call::CursorPosition(Some(line), Some(cx.min(cols - 1) + 1))));
    if cx == cols {
        v.push(Op::Api(Call::Draw("w".into())));
    }
    Some(v)
}

/// C05: exhaustive (geometry x margins x DECOM x cursor x op x parameter).
fn enum_c05(tier: &str, r: &mut Rng) -> Vec<Session> {
    let maxg = counts(tier, 3, 6);
    let keep = counts(tier, 5, 1);
    let mut out = vec![];
    let mut n = 0;
    for cols in 1..=maxg {
        for lines in 1..=maxg {
            let mut cands: Vec<Call> = vec![Call::Backspace, Call::CarriageReturn];
            for p in param_set(lines.max(cols)) {
                cands.push(Call::CursorUp(p));
                cands.push(Call::CursorDown(p));
                cands.push(Call::CursorForward(p));
                cands.push(Call::CursorBack(p));
                cands.push(Call::CursorDown1(p));
                cands.push(Call::CursorUp1(p));
                cands.push(Call::CursorToColumn(p));
                cands.push(Call::CursorToLine(p));
                for q in [None, Some(0), Some(1), Some(2), Some(cols), Some(cols + 1), Some(9999)] {
                    cands.push(Call::CursorPosition(p, q));
                    cands.push(Call::CursorPosition(q, p));
                }
            }
            for (m, decom) in regions(lines) {
                let mut ops = vec![Op::Quiet(true)];
                ops.extend(region_setup(m, decom));
                for cy in 0..lines {
                    for cx in 0..=cols {
                        if let Some(pl) = place(m, decom, cols, cy, cx) {
                            ops.extend(pl);
                            ops.push(Op::Snap);
                            ops.push(Op::Quiet(false));
                            for c in &cands {
                                if keep == 1 || r.below(keep) == 0 {
                                    push_cand(r, &mut ops, c);
                                    ops.push(Op::Back);
                                }
                            }
                            ops.push(Op::Quiet(true));
                        }
                    }
                }
                n += 1;
                out.push(Session { columns: cols, lines, bytes: false, id: format!("c05e{}", n), ops });
            }
        }
    }
    out
}

/// Push a candidate either as an API call or through its escape sequence.
fn push_cand(r: &mut Rng, ops: &mut Vec<Op>, c: &Call) {
    if r.chance(1, 3) {
        if let Some(s) = gen::render(r, c) {
            ops.push(Op::Feed(s));
            return;
        }
    }
    ops.push(Op::Api(c.clone()));
}

pub fn generate(prop: &str, tier: &str, seed: u64) -> Vec<Session> {
    let mut r = Rng::new(seed ^ (prop.bytes().fold(0u64, |a, b| a * 131 + b as u64)));
    let mut out = vec![];
    let focus = focus_of(prop);
    let nsess = counts(tier, 200, 4000);
    for i in 0..nsess {
        let mut rr = r.fork();
        let bytes = match prop {
            "C11" => true,
            _ => rr.chance(1, 4),
        };
        let via = match prop {
            "C03" | "C19" => 1,
            _ => rr.below(3),
        };
        let nops = rr.range(5, 60);
        out.push(gen::session(&mut rr, format!("{}g{}", prop, i), focus, nops, via, bytes));
    }
    match prop {
        "C05" => out.extend(enum_c05(tier, &mut r)),
        _ => {}
    }
    let _ = fill_markers;
    out
}

/// Final observation of a session run on a fresh runner (None if it died).
fn final_obs(s: &Session, with_dirty: bool, with_sp: bool) -> Result<String, String> {
    use crate::exec::Runner;
    let r = std::panic::catch_unwind(std::panic::AssertUnwindSafe(|| {
        let mut r = Runner::new(s.columns, s.lines, s.bytes);
        {
            let mut t = r.tap.lock().unwrap();
            t.quiet = true;
        }
        for op in &s.ops {
            r.step(op);
            if r.dead() {
                return Err("panic".to_string());
            }
        }
        let t = match r.tap.lock() {
            Ok(g) => g,
            Err(p) => p.into_inner(),
        };
        Ok(crate::dump::observe(&t.screen, with_dirty, with_sp))
    }));
    match r {
        Ok(x) => x,
        Err(_) => Err("panic".to_string()),
    }
}

fn sp_count(obs: &str) -> Option<usize> {
    obs.split_whitespace().find(|t| t.starts_with("sp")).and_then(|t| t[2..].parse().ok())
}

fn strip_sp(obs: &str) -> String {
    obs.split_whitespace().filter(|t| !t.starts_with("sp")).collect::<Vec<_>>().join(" ")
}

/// Merge all consecutive feeds of a session into single feeds.
fn merge_feeds(s: &Session) -> Session {
    let mut ops: Vec<Op> = vec![];
    for op in &s.ops {
        match (ops.last_mut(), op) {
            (Some(Op::Feed(a)), Op::Feed(b)) => a.push_str(b),
            (Some(Op::FeedB(a)), Op::FeedB(b)) => a.extend_from_slice(b),
            _ => ops.push(op.clone()),
        }
    }
    Session { ops, ..s.clone() }
}

fn rechunk(r: &mut Rng, s: &Session, mode: u32) -> Session {
    let mut ops = vec![];
    for op in &s.ops {
        match op {
            Op::Feed(t) => {
                if mode == 0 {
                    for c in t.chars() {
                        ops.push(Op::Feed(c.to_string()));
                    }
                } else {
                    for ch in gen::split_chars(r, t) {
                        ops.push(Op::Feed(ch));
                    }
                }
            }
            Op::FeedB(b) => {
                if mode == 0 {
                    for x in b {
                        ops.push(Op::FeedB(vec![*x]));
                    }
                } else {
                    for ch in gen::split_bytes(r, b) {
                        ops.push(Op::FeedB(ch));
                    }
                }
            }
            o => ops.push(o.clone()),
        }
    }
    Session { ops, ..s.clone() }
}

/// A stream-only session (everything through the parser), for C02.
fn stream_session(r: &mut Rng, id: String, bytes: bool, nops: u32) -> Session {
    let (cols, lines) = gen::geometry(r);
    let mut text = String::new();
    let mut raw: Vec<u8> = vec![];
    let eight_bit = bytes && r.chance(1, 4);
    for _ in 0..nops {
        if r.chance(1, 8) {
            let g = gen::garbage(r);
            text.push_str(&g);
            raw.extend_from_slice(g.as_bytes());
            continue;
        }
        if bytes && r.chance(1, 8) {
            raw.extend_from_slice(&gen::utf8_garbage(r));
            continue;
        }
        let c = gen::call(r, cols, lines, "any");
        if let Some(t) = gen::render(r, &c) {
            text.push_str(&t);
            if eight_bit {
                raw.extend(t.chars().map(|c| if (c as u32) < 256 { c as u32 as u8 } else { b'?' }));
            } else {
                raw.extend_from_slice(t.as_bytes());
            }
        }
    }
    let mut ops = vec![];
    if eight_bit {
        ops.push(Op::Charset("@".into()));
    }
    if bytes {
        ops.push(Op::FeedB(raw));
    } else {
        ops.push(Op::Feed(text));
    }
    Session { columns: cols, lines, bytes, id, ops }
}

fn captured_sessions() -> Vec<(String, Vec<u8>)> {
    let mut out = vec![];
    for name in ["cat-gpl3", "find-etc", "htop", "ls", "mc", "top", "vi"] {
        if let Ok(b) = std::fs::read(format!("/repo/assets/captured/{}.input", name)) {
            out.push((name.to_string(), b));
        }
    }
    out
}

pub struct MetaOut {
    pub lines: Vec<String>,
    pub fails: Vec<(String, String)>, // (description, session text(s))
}

pub fn meta(prop: &str, tier: &str, seed: u64) -> String {
    let mut r = Rng::new(seed ^ 0x5151 ^ (prop.bytes().fold(0u64, |a, b| a * 131 + b as u64)));
    let mut out = String::new();
    let mut n = 0u32;
    let mut nfail = 0u32;
    let mut sample = String::new();
    let mut fail = |out: &mut String, what: &str, a: &Session, b: &Session| {
        out.push_str(&format!("METAFAIL {} {}\n", prop, what));
        out.push_str("#A\n");
        out.push_str(&a.text());
        out.push_str("#B\n");
        out.push_str(&b.text());
        out.push_str("#END\n");
    };
    match prop {
        "C02" | "C11" => {
            let k = counts(tier, 300, 6000);
            for i in 0..k {
                let bytes = prop == "C11" || r.chance(1, 2);
                let nops = r.range(3, 40);
                let base = stream_session(&mut r, format!("{}m{}", prop, i), bytes, nops);
                let whole = final_obs(&base, true, true);
                for mode in 0..3 {
                    let re = rechunk(&mut r, &base, mode);
                    let got = final_obs(&re, true, true);
                    n += 1;
                    if got != whole {
                        nfail += 1;
                        fail(&mut out, "chunking changes the final state", &base, &re);
                    }
                }
                if i == 0 {
                    sample = base.text();
                }
            }
            // every 2-way split of short streams
            let k2 = counts(tier, 150, 3000);
            for i in 0..k2 {
                let bytes = prop == "C11" || r.chance(1, 2);
                let base = stream_session(&mut r, format!("{}s{}", prop, i), bytes, 2);
                let whole = final_obs(&base, true, true);
                let len = base.ops.iter().map(|o| match o { Op::Feed(t) => t.chars().count(), Op::FeedB(b) => b.len(), _ => 0 }).sum::<usize>();
                for cut in 0..=len.min(40) {
                    let mut ops = vec![];
                    for op in &base.ops {
                        match op {
                            Op::Feed(t) => {
                                let cs: Vec<char> = t.chars().collect();
                                let c = cut.min(cs.len());
                                ops.push(Op::Feed(cs[..c].iter().collect()));
                                ops.push(Op::Feed(cs[c..].iter().collect()));
                            }
                            Op::FeedB(b) => {
                                let c = cut.min(b.len());
                                ops.push(Op::FeedB(b[..c].to_vec()));
                                ops.push(Op::FeedB(b[c..].to_vec()));
                            }
                            o => ops.push(o.clone()),
                        }
                    }
                    let re = Session { ops, ..base.clone() };
                    n += 1;
                    if final_obs(&re, true, true) != whole {
                        nfail += 1;
                        fail(&mut out, "2-way split changes the final state", &base, &re);
                    }
                }
            }
            // captured sessions under random chunkings
            let reps = counts(tier, 3, 40);
            for (name, data) in captured_sessions() {
                let base = Session { columns: 80, lines: 24, bytes: true, id: format!("cap-{}", name), ops: vec![Op::FeedB(data)] };
                let whole = final_obs(&base, true, true);
                for _ in 0..reps {
                    let re = rechunk(&mut r, &base, 1);
                    n += 1;
                    if final_obs(&re, true, true) != whole {
                        nfail += 1;
                        fail(&mut out, "captured session: chunking changes the final state", &base, &re);
                    }
                }
            }
        }
        "C10" => {
            let k = counts(tier, 400, 8000);
            for i in 0..k {
                let mut rr = r.fork();
                let nops = rr.range(2, 30);
                let via = rr.below(3);
                let bytes = rr.chance(1, 5);
                let base0 = gen::session(&mut rr, format!("C10m{}", i), "draw", nops, via, bytes);
                // the base history has no display() at all
                let base = Session { ops: base0.ops.iter().filter(|o| !matches!(o, Op::Api(Call::Display))).cloned().collect(), ..base0 };
                let want = final_obs(&base, true, true);
                for _ in 0..3 {
                    let mut ops = vec![];
                    for op in &base.ops {
                        if rr.chance(1, 3) {
                            ops.push(Op::Api(Call::Display));
                            if rr.chance(1, 4) {
                                ops.push(Op::Api(Call::Display));
                            }
                        }
                        ops.push(op.clone());
                    }
                    ops.push(Op::Api(Call::Display));
                    let re = Session { ops, ..base.clone() };
                    n += 1;
                    if final_obs(&re, true, true) != want {
                        nfail += 1;
                        fail(&mut out, "interposed display() changes the final state", &base, &re);
                    }
                }
                if i == 0 {
                    sample = base.text();
                }
            }
        }
        "C15" => {
            let k = counts(tier, 400, 8000);
            for i in 0..k {
                let mut rr = r.fork();
                let nh = rr.range(0, 30);
                let nt = rr.range(1, 20);
                let via_h = rr.below(3);
                let h = gen::session_opts(&mut rr, format!("C15h{}", i), "any", nh, via_h, false, false);
                // geometry at the point of RIS
                let mut probe = h.clone();
                probe.ops.push(Op::Api(Call::Reset));
                let (cols, lines, depth) = {
                    use crate::exec::Runner;
                    let mut run = Runner::new(probe.columns, probe.lines, false);
                    run.tap.lock().unwrap().quiet = true;
                    for op in &probe.ops {
                        run.step(op);
                    }
                    let t = run.tap.lock().unwrap();
                    (t.screen.columns, t.screen.lines, t.screen.savepoints.len())
                };
                // continuation without DECRC, API level or parser level
                let mut t_ops = vec![];
                let mut c2 = cols;
                let mut l2 = lines;
                for _ in 0..nt {
                    let c = gen::call(&mut rr, c2, l2, "any");
                    if matches!(c, Call::RestoreCursor) {
                        continue;
                    }
                    if let Call::Resize(l, c3) = &c {
                        l2 = l.unwrap_or(l2);
                        c2 = c3.unwrap_or(c2);
                    }
                    if rr.chance(1, 2) {
                        if let Some(s) = gen::render(&mut rr, &c) {
                            t_ops.push(Op::Feed(s));
                            continue;
                        }
                    }
                    t_ops.push(Op::Api(c));
                }
                let mut a = h.clone();
                if rr.chance(1, 2) {
                    a.ops.push(Op::Api(Call::Reset));
                } else {
                    a.ops.push(Op::Feed("\x1bc".to_string()));
                }
                let just_reset = a.clone();
                a.ops.extend(t_ops.clone());
                let fresh0 = Session { columns: cols, lines, bytes: false, id: format!("C15f{}", i), ops: vec![] };
                let fresh = Session { ops: t_ops.clone(), ..fresh0.clone() };
                n += 1;
                // (1) right after RIS: equals a new screen, every row dirty
                let ra = final_obs(&just_reset, true, false);
                let rf = final_obs(&fresh0, true, false);
                if ra.as_ref().map(|s| strip_sp(s)) != rf.as_ref().map(|s| strip_sp(s)) {
                    nfail += 1;
                    fail(&mut out, "state after RIS differs from a new screen", &just_reset, &fresh0);
                    continue;
                }
                // (2) same continuation, same state (stack depth differs by the depth at RIS)
                let oa = final_obs(&a, true, false);
                let of = final_obs(&fresh, true, false);
                let same = match (&oa, &of) {
                    (Ok(x), Ok(y)) => strip_sp(x) == strip_sp(y) && sp_count(x) == sp_count(y).map(|d| d + depth),
                    _ => false,
                };
                if !same {
                    nfail += 1;
                    fail(&mut out, "continuation after RIS differs from the same input on a new screen", &a, &fresh);
                }
                if i == 0 {
                    sample = a.text();
                }
            }
        }
        _ => {}
    }
    let _ = merge_feeds;
    out.push_str(&format!("METASUMMARY prop={} evaluations={} failures={}\n", prop, n, nfail));
    out.push_str("#SAMPLE\n");
    out.push_str(&sample);
    out
}
