//! Seeds for the coverage-guided search (`/verif/fuzz`): a sessions file rendered into the byte
//! format of `fuzz_targets/bytes.rs`.  Only the quality of the search depends on this file: whatever
//! the search keeps is decoded back into a session (`tools/fz2sess.py`) and judged like any other.

use crate::call::Call;
use crate::exec::{Op, Session};
use crate::gen::{render_plain, Rng};

const COLS: [u32; 16] = [1, 2, 3, 4, 5, 6, 7, 8, 9, 10, 12, 17, 20, 40, 80, 132];
const LINES: [u32; 8] = [1, 2, 3, 4, 5, 6, 10, 24];

fn geom_byte(v: u32, table: &[u32], span: u32) -> u8 {
    if let Some(i) = table.iter().position(|x| *x == v) {
        return i as u8;
    }
    if v >= 1 && v <= span {
        return 128 + (v - 1) as u8;
    }
    // nearest table entry
    let mut best = 0;
    for (i, x) in table.iter().enumerate() {
        if (*x as i64 - v as i64).abs() < (table[best] as i64 - v as i64).abs() {
            best = i;
        }
    }
    best as u8
}

fn push_bytes(out: &mut Vec<u8>, b: &[u8]) {
    for x in b {
        out.push(*x);
        if *x == 0xFF {
            out.push(0xFF);
        }
    }
}

/// All seeds of one session (a session with snap/back yields one seed per branch).
pub fn seeds_of(s: &Session) -> Vec<Vec<u8>> {
    let mut r = Rng(0x5eed);
    let head = vec![geom_byte(s.columns, &COLS, 40), geom_byte(s.lines, &LINES, 40)];
    let mut cur = head.clone();
    let mut snap: Option<Vec<u8>> = None;
    let mut out = vec![];
    for op in &s.ops {
        match op {
            Op::Api(Call::Resize(l, c)) => {
                let l = l.unwrap_or(s.lines).clamp(1, 40);
                let c = c.unwrap_or(s.columns);
                let cb = if (1..=24).contains(&c) {
                    (c - 1) as u8
                } else {
                    // the nearest entry of the width table
                    let mut best = 0usize;
                    for (i, x) in COLS.iter().enumerate() {
                        if (*x as i64 - c as i64).abs() < (COLS[best] as i64 - c as i64).abs() {
                            best = i;
                        }
                    }
                    200 + best as u8
                };
                cur.extend_from_slice(&[0xFF, 0x01, (l - 1) as u8, cb]);
            }
            Op::Api(Call::Display) => cur.extend_from_slice(&[0xFF, 0x00]),
            Op::Api(c) => {
                if let Some(t) = render_plain(&mut r, c) {
                    push_bytes(&mut cur, t.as_bytes());
                }
            }
            Op::Feed(t) => push_bytes(&mut cur, t.as_bytes()),
            Op::FeedB(b) => {
                push_bytes(&mut cur, b);
                cur.extend_from_slice(&[0xFF, 0x02]);
            }
            Op::Charset(c) => {
                let k = match c.as_str() {
                    "@" => 0,
                    "G" => 1,
                    "8" => 2,
                    _ => 3,
                };
                cur.extend_from_slice(&[0xFF, 0x03, k]);
            }
            Op::Utf8(b) => cur.extend_from_slice(if *b { b"\x1b%G" } else { b"\x1b%@" }),
            Op::Quiet(_) | Op::AutoClear(_) => {}
            Op::Snap => snap = Some(cur.clone()),
            Op::Back => {
                if let Some(p) = &snap {
                    if cur.len() > p.len() {
                        out.push(std::mem::replace(&mut cur, p.clone()));
                    }
                }
            }
        }
    }
    if cur.len() > head.len() && snap.as_ref().map(|p| cur.len() > p.len()).unwrap_or(true) {
        out.push(cur);
    }
    out.retain(|x| x.len() <= 4096);
    out
}

/// Seeds of the API target: the direct calls of a session (feeds are left out; a session with
/// snap/back yields one seed per branch).
pub fn api_seeds_of(s: &Session) -> Vec<Vec<u8>> {
    let mut cur: Vec<Call> = vec![];
    let mut snap: Option<Vec<Call>> = None;
    let mut out = vec![];
    for op in &s.ops {
        match op {
            Op::Api(c) => cur.push(c.clone()),
            Op::Snap => snap = Some(cur.clone()),
            Op::Back => {
                if let Some(p) = &snap {
                    if cur.len() > p.len() {
                        out.push(crate::apifz::encode(s.columns, s.lines, &cur));
                        cur = p.clone();
                    }
                }
            }
            _ => {}
        }
    }
    if !cur.is_empty() && snap.as_ref().map(|p| cur.len() > p.len()).unwrap_or(true) {
        out.push(crate::apifz::encode(s.columns, s.lines, &cur));
    }
    out
}
