//! Decoder of the second coverage-guided target (`fuzz/fuzz_targets/api.rs`): a byte string read as a
//! geometry and a sequence of DIRECT calls on `Screen` - the shapes the parser can never deliver (an
//! absent first argument, several characters in one `draw`, `resize(None, Some(c))`, ...).  The same
//! decoder is compiled into the fuzz target and into `mtharness apisess`, so what the search ran and
//! what the harness judges are the same calls by construction.

use crate::call::Call;

const COLS: [u32; 16] = [1, 2, 3, 4, 5, 6, 7, 8, 9, 10, 12, 17, 20, 40, 80, 132];
const LINES: [u32; 8] = [1, 2, 3, 4, 5, 6, 10, 24];
const CHARS: [u32; 32] = [
    0x61, 0x7e, 0x20, 0x4e2d, 0x301, 0xfe0f, 0x263a, 0xe9, 0x200b, 0xad, 0x7f, 0x00, 0x1b, 0x07, 0x0a, 0x0e, 0x5f, 0x71, 0xff,
    0x100, 0xf9bf, 0x1f600, 0x3099, 0x30ab, 0xfffd, 0x80, 0x9b, 0x2500, 0x65, 0x41, 0x7c, 0x10ffff,
];
const MODES: [u32; 12] = [3, 4, 5, 6, 7, 20, 25, 0, 1, 96, 160, 9999];

pub struct Decoded {
    pub columns: u32,
    pub lines: u32,
    pub calls: Vec<Call>,
}

struct Rd<'a> {
    d: &'a [u8],
    i: usize,
}

impl<'a> Rd<'a> {
    fn byte(&mut self) -> Option<u8> {
        let b = self.d.get(self.i).copied();
        self.i += 1;
        b
    }
    /// an optional numeric argument: absent, 0..=199, or one of the values around the sizes and limits
    fn opt(&mut self, cols: u32, lines: u32) -> Option<Option<u32>> {
        let b = self.byte()?;
        Some(match b {
            0 => None,
            1..=200 => Some(b as u32 - 1),
            _ => {
                let t = [255, 256, 257, 1000, 9998, 9999, cols.saturating_sub(1), cols, cols + 1, lines.saturating_sub(1), lines,
                         lines + 1, 132, 133, 80, 2047, 4096, 32, 64];
                Some(t[(b as usize - 201) % t.len()])
            }
        })
    }
    fn ch(&mut self) -> Option<char> {
        let b = self.byte()?;
        if b < 32 {
            char::from_u32(CHARS[b as usize])
        } else if b < 128 {
            Some(b as char)
        } else {
            // two more bytes: a code point
            let hi = self.byte()? as u32;
            let lo = self.byte()? as u32;
            let cp = (((b as u32) & 0x1f) << 16) | (hi << 8) | lo;
            Some(char::from_u32(cp).unwrap_or('\u{fffd}'))
        }
    }
    fn text(&mut self) -> Option<String> {
        let n = self.byte()? % 7;
        let mut s = String::new();
        for _ in 0..n {
            s.push(self.ch()?);
        }
        Some(s)
    }
    fn list(&mut self, table: Option<&[u32]>) -> Option<Vec<u32>> {
        let n = self.byte()? % 7;
        let mut v = vec![];
        for _ in 0..n {
            let b = self.byte()?;
            v.push(match table {
                Some(t) => t[b as usize % t.len()],
                None => match b {
                    0..=110 => b as u32,
                    111..=200 => (b as u32 - 111) * 3,
                    _ => [255, 256, 257, 300, 9999, 1000][(b as usize - 201) % 6],
                },
            });
        }
        Some(v)
    }
}

pub fn decode(data: &[u8]) -> Option<Decoded> {
    if data.len() < 3 || data.len() > 2048 {
        return None;
    }
    let columns = if data[0] < 128 { COLS[(data[0] & 15) as usize] } else { 1 + ((data[0] - 128) as u32) % 40 };
    let lines = if data[1] < 128 { LINES[(data[1] & 7) as usize] } else { 1 + ((data[1] - 128) as u32) % 40 };
    let mut r = Rd { d: &data[2..], i: 0 };
    let mut calls = vec![];
    let (mut c, mut l) = (columns, lines);
    while let Some(op) = r.byte() {
        let call = (|| -> Option<Call> {
            use Call::*;
            Some(match op % 44 {
                0 => AlignmentDisplay,
                1 => Reset,
                2 => Index,
                3 => Linefeed,
                4 => ReverseIndex,
                5 => SetTabStop,
                6 => SaveCursor,
                7 => RestoreCursor,
                8 => ShiftOut,
                9 => ShiftIn,
                10 => Backspace,
                11 => Tab,
                12 => CarriageReturn,
                13 | 40 | 41 => Draw(r.text()?),
                14 => InsertCharacters(r.opt(c, l)?),
                15 => CursorUp(r.opt(c, l)?),
                16 => CursorDown(r.opt(c, l)?),
                17 => CursorForward(r.opt(c, l)?),
                18 => CursorBack(r.opt(c, l)?),
                19 => CursorDown1(r.opt(c, l)?),
                20 => CursorUp1(r.opt(c, l)?),
                21 => CursorToColumn(r.opt(c, l)?),
                22 => CursorPosition(r.opt(c, l)?, r.opt(c, l)?),
                23 => EraseInDisplay(r.opt(c, l)?),
                24 => EraseInLine(r.opt(c, l)?),
                25 => InsertLines(r.opt(c, l)?),
                26 => DeleteLines(r.opt(c, l)?),
                27 => DeleteCharacters(r.opt(c, l)?),
                28 => EraseCharacters(r.opt(c, l)?),
                29 => CursorToLine(r.opt(c, l)?),
                30 => ClearTabStop(r.opt(c, l)?),
                31 => SetMode(r.list(Some(&MODES))?, r.byte()? & 1 == 1),
                32 => ResetMode(r.list(Some(&MODES))?, r.byte()? & 1 == 1),
                33 => Sgr(r.list(None)?),
                34 => SetMargins(r.opt(c, l)?, r.opt(c, l)?),
                35 => {
                    let nl = r.opt(c, l)?.map(|x| x.clamp(1, 40));
                    let nc = r.opt(c, l)?.map(|x| x.clamp(1, 140));
                    l = nl.unwrap_or(l);
                    c = nc.unwrap_or(c);
                    Resize(nl, nc)
                }
                36 => Display,
                37 => ClearDirty,
                38 => DefineCharset(["B", "0", "U", "V", "K"][(r.byte()? % 5) as usize].to_string(),
                                    ["(", ")", "*"][(r.byte()? % 3) as usize].to_string()),
                39 => ReportDeviceAttributes(r.opt(c, l)?),
                42 => SetTitle(r.text()?),
                _ => SetIconName(r.text()?),
            })
        })();
        match call {
            Some(x) => calls.push(x),
            None => break,
        }
        if calls.len() >= 200 {
            break;
        }
    }
    calls.push(Call::Display);
    Some(Decoded { columns, lines, calls })
}

/// the decoded input as a session of the harness
pub fn session_text(data: &[u8], id: &str) -> Option<String> {
    let d = decode(data)?;
    let mut out = format!("new {} {} c {}\n", d.columns, d.lines, id);
    for c in &d.calls {
        out.push_str("api ");
        out.push_str(&c.line());
        out.push('\n');
    }
    out.push_str("end\n");
    Some(out)
}

// ---------------------------------------------------------------- encoder (seeds)

fn enc_opt(o: &Option<u32>, cols: u32, lines: u32, out: &mut Vec<u8>) {
    match o {
        None => out.push(0),
        Some(v) if *v <= 199 => out.push(*v as u8 + 1),
        Some(v) => {
            let t = [255, 256, 257, 1000, 9998, 9999, cols.saturating_sub(1), cols, cols + 1, lines.saturating_sub(1), lines,
                     lines + 1, 132, 133, 80, 2047, 4096, 32, 64];
            // the nearest table value (an exact hit for everything the generators use)
            let mut best = 0usize;
            for (i, x) in t.iter().enumerate() {
                if (*x as i64 - *v as i64).abs() < (t[best] as i64 - *v as i64).abs() {
                    best = i;
                }
            }
            out.push(201 + best as u8);
        }
    }
}

fn enc_text(s: &str, out: &mut Vec<u8>) {
    let cs: Vec<char> = s.chars().take(6).collect();
    out.push(cs.len() as u8);
    for c in cs {
        let cp = c as u32;
        if let Some(i) = CHARS.iter().position(|x| *x == cp) {
            out.push(i as u8);
        } else if (32..128).contains(&cp) {
            out.push(cp as u8);
        } else {
            out.push(0x80 | ((cp >> 16) & 0x1f) as u8);
            out.push(((cp >> 8) & 0xff) as u8);
            out.push((cp & 0xff) as u8);
        }
    }
}

fn enc_list(v: &[u32], table: Option<&[u32]>, out: &mut Vec<u8>) {
    let v = &v[..v.len().min(6)];
    out.push(v.len() as u8);
    for x in v {
        match table {
            Some(t) => out.push(t.iter().position(|y| y == x).unwrap_or(7) as u8),
            None => out.push(match *x {
                0..=110 => *x as u8,
                255 => 201,
                256 => 202,
                257 => 203,
                300 => 204,
                9999 => 205,
                1000 => 206,
                y if y % 3 == 0 && y / 3 <= 89 => 111 + (y / 3) as u8,
                _ => 110,
            }),
        }
    }
}

/// a list of calls as an input of the API target (None when a call has no encoding)
pub fn encode(columns: u32, lines: u32, calls: &[Call]) -> Vec<u8> {
    use Call::*;
    fn geom(v: u32, table: &[u32], span: u32) -> u8 {
        if let Some(i) = table.iter().position(|x| *x == v) {
            i as u8
        } else if v >= 1 && v <= span {
            128 + (v - 1) as u8
        } else {
            0
        }
    }
    let mut out = vec![geom(columns, &COLS, 40), geom(lines, &LINES, 40)];
    let (mut c, mut l) = (columns, lines);
    for call in calls.iter().take(199) {
        match call {
            AlignmentDisplay => out.push(0),
            Reset => out.push(1),
            Index => out.push(2),
            Linefeed => out.push(3),
            ReverseIndex => out.push(4),
            SetTabStop => out.push(5),
            SaveCursor => out.push(6),
            RestoreCursor => out.push(7),
            ShiftOut => out.push(8),
            ShiftIn => out.push(9),
            Backspace => out.push(10),
            Tab => out.push(11),
            CarriageReturn => out.push(12),
            Bell => {}
            Draw(t) => {
                // longer texts become several draws of up to six characters
                let cs: Vec<char> = t.chars().collect();
                for ch in cs.chunks(6) {
                    out.push(13);
                    enc_text(&ch.iter().collect::<String>(), &mut out);
                }
                if cs.is_empty() {
                    out.push(13);
                    out.push(0);
                }
            }
            InsertCharacters(o) => { out.push(14); enc_opt(o, c, l, &mut out) }
            CursorUp(o) => { out.push(15); enc_opt(o, c, l, &mut out) }
            CursorDown(o) => { out.push(16); enc_opt(o, c, l, &mut out) }
            CursorForward(o) => { out.push(17); enc_opt(o, c, l, &mut out) }
            CursorBack(o) => { out.push(18); enc_opt(o, c, l, &mut out) }
            CursorDown1(o) => { out.push(19); enc_opt(o, c, l, &mut out) }
            CursorUp1(o) => { out.push(20); enc_opt(o, c, l, &mut out) }
            CursorToColumn(o) => { out.push(21); enc_opt(o, c, l, &mut out) }
            CursorPosition(a, b) => { out.push(22); enc_opt(a, c, l, &mut out); enc_opt(b, c, l, &mut out) }
            EraseInDisplay(o) => { out.push(23); enc_opt(o, c, l, &mut out) }
            EraseInLine(o) => { out.push(24); enc_opt(o, c, l, &mut out) }
            InsertLines(o) => { out.push(25); enc_opt(o, c, l, &mut out) }
            DeleteLines(o) => { out.push(26); enc_opt(o, c, l, &mut out) }
            DeleteCharacters(o) => { out.push(27); enc_opt(o, c, l, &mut out) }
            EraseCharacters(o) => { out.push(28); enc_opt(o, c, l, &mut out) }
            CursorToLine(o) => { out.push(29); enc_opt(o, c, l, &mut out) }
            ClearTabStop(o) => { out.push(30); enc_opt(o, c, l, &mut out) }
            SetMode(v, p) => { out.push(31); enc_list(v, Some(&MODES), &mut out); out.push(*p as u8) }
            ResetMode(v, p) => { out.push(32); enc_list(v, Some(&MODES), &mut out); out.push(*p as u8) }
            Sgr(v) => { out.push(33); enc_list(v, None, &mut out) }
            SetMargins(a, b) => { out.push(34); enc_opt(a, c, l, &mut out); enc_opt(b, c, l, &mut out) }
            Resize(a, b) => {
                out.push(35);
                enc_opt(a, c, l, &mut out);
                enc_opt(b, c, l, &mut out);
                l = a.map(|x| x.clamp(1, 40)).unwrap_or(l);
                c = b.map(|x| x.clamp(1, 140)).unwrap_or(c);
            }
            Display => out.push(36),
            ClearDirty => out.push(37),
            DefineCharset(code, mode) => {
                out.push(38);
                out.push(["B", "0", "U", "V", "K"].iter().position(|x| x == code).unwrap_or(4) as u8);
                out.push(["(", ")", "*"].iter().position(|x| x == mode).unwrap_or(2) as u8);
            }
            ReportDeviceAttributes(o) => { out.push(39); enc_opt(o, c, l, &mut out) }
            SetTitle(t) => { out.push(42); enc_text(t, &mut out) }
            SetIconName(t) => { out.push(43); enc_text(t, &mut out) }
        }
    }
    out
}
