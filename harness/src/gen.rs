//! Generators.  Every random choice is derived from one splitmix64 state.

use crate::call::{Call, O};
use crate::exec::{Op, Session};

#[derive(Clone)]
pub struct Rng(pub u64);

impl Rng {
    pub fn new(seed: u64) -> Rng {
        Rng(seed.wrapping_mul(0x9E3779B97F4A7C15).wrapping_add(0x1234567))
    }
    pub fn next(&mut self) -> u64 {
        self.0 = self.0.wrapping_add(0x9E3779B97F4A7C15);
        let mut z = self.0;
        z = (z ^ (z >> 30)).wrapping_mul(0xBF58476D1CE4E5B9);
        z = (z ^ (z >> 27)).wrapping_mul(0x94D049BB133111EB);
        z ^ (z >> 31)
    }
    pub fn below(&mut self, n: u32) -> u32 {
        if n == 0 {
            0
        } else {
            (self.next() % n as u64) as u32
        }
    }
    pub fn range(&mut self, lo: u32, hi: u32) -> u32 {
        lo + self.below(hi - lo + 1)
    }
    pub fn chance(&mut self, num: u32, den: u32) -> bool {
        self.below(den) < num
    }
    pub fn pick<'a, T>(&mut self, v: &'a [T]) -> &'a T {
        &v[self.below(v.len() as u32) as usize]
    }
    pub fn fork(&mut self) -> Rng {
        Rng(self.next())
    }
}

pub const NARROW: &[char] = &[
    'a', 'b', 'c', 'x', 'y', 'z', 'A', 'Z', '0', '9', '~', '!', ' ', '_', '`', 'q', 'j', '+', '.',
    '\u{e9}', '\u{df}', '\u{a0}', '\u{ff}', '\u{b0}', '\u{44f}', '\u{3b1}', '\u{2592}', '\u{212b}', '\u{263a}', '\u{2764}',
];
pub const WIDE: &[char] = &['\u{30b3}', '\u{4e2d}', '\u{ff21}', '\u{1f600}', '\u{ac00}'];
pub const COMBINING: &[char] = &['\u{301}', '\u{308}', '\u{20dd}', '\u{334}', '\u{5b0}', '\u{fe0f}', '\u{fe0e}'];
pub const ZEROW: &[char] = &['\u{200b}', '\u{200d}', '\u{ad}', '\u{feff}', '\u{17d8}', '\u{0}'];
pub const C0DEL: &[char] =
    &['\u{7}', '\u{8}', '\u{9}', '\u{a}', '\u{d}', '\u{18}', '\u{1a}', '\u{7f}', '\u{1}', '\u{85}'];

/// code points at the edges of every range the code distinguishes (charset tables end at 255,
/// C1, surrogates' neighbours, planes, the last scalar value)
pub const BOUNDARY: &[char] = &[
    '\u{7e}', '\u{7f}', '\u{80}', '\u{9f}', '\u{a0}', '\u{fe}', '\u{ff}', '\u{100}', '\u{101}', '\u{17f}',
    '\u{7ff}', '\u{800}', '\u{d7ff}', '\u{e000}', '\u{fffd}', '\u{fffe}', '\u{ffff}', '\u{10000}',
    '\u{1ffff}', '\u{e0001}', '\u{10ffff}',
];

pub fn text_char(r: &mut Rng) -> char {
    match r.below(22) {
        20 | 21 => *r.pick(BOUNDARY),
        0..=10 => *r.pick(NARROW),
        11..=13 => *r.pick(WIDE),
        14..=16 => *r.pick(COMBINING),
        17 => *r.pick(ZEROW),
        18 => *r.pick(C0DEL),
        _ => char::from_u32(r.range(0x20, 0xff)).unwrap(),
    }
}

pub fn text(r: &mut Rng, maxlen: u32) -> String {
    let n = r.range(1, maxlen.max(1));
    (0..n).map(|_| text_char(r)).collect()
}

/// Parameter pool around a size.
pub fn param(r: &mut Rng, size: u32) -> O {
    match r.below(12) {
        0 | 1 => None,
        2 => Some(0),
        3 => Some(1),
        4 => Some(2),
        5 => Some(size.saturating_sub(1)),
        6 => Some(size),
        7 => Some(size + 1),
        8 => Some(size + 2),
        9 => Some(9999),
        _ => Some(r.range(0, size + 3)),
    }
}

pub const MODES_ANSI: &[u32] = &[4, 20];
pub const MODES_PRIV: &[u32] = &[3, 5, 6, 7, 25];

pub fn mode_list(r: &mut Rng) -> (Vec<u32>, bool) {
    let private = r.chance(2, 3);
    let n = if r.chance(4, 5) { 1 } else { r.range(1, 3) };
    let mut v = vec![];
    for _ in 0..n {
        let m = match r.below(10) {
            0..=5 => {
                if private {
                    *r.pick(MODES_PRIV)
                } else {
                    *r.pick(MODES_ANSI)
                }
            }
            6 => {
                // the spelled-out (shifted) number through the ANSI entry
                if private {
                    r.range(0, 30)
                } else {
                    *r.pick(MODES_PRIV) << 5
                }
            }
            7 => *r.pick(&[3u32, 4, 5, 6, 7, 20, 25]),
            8 => r.range(0, 40),
            _ => r.range(0, 9999),
        };
        v.push(m);
    }
    (v, private)
}

pub fn sgr_list(r: &mut Rng) -> Vec<u32> {
    let n = match r.below(10) {
        0 => 0,
        1..=5 => 1,
        6..=7 => 2,
        _ => r.range(2, 6),
    };
    let mut v = vec![];
    for _ in 0..n {
        match r.below(16) {
            0 => v.push(0),
            1..=3 => v.push(*r.pick(&[1u32, 3, 4, 5, 7, 9, 22, 23, 24, 25, 27, 29])),
            4..=5 => v.push(r.range(30, 39)),
            6..=7 => v.push(r.range(40, 49)),
            8 => v.push(r.range(90, 97)),
            9 => v.push(r.range(100, 107)),
            10..=11 => {
                v.push(*r.pick(&[38u32, 48]));
                v.push(5);
                if r.chance(9, 10) {
                    v.push(match r.below(6) {
                        0 => r.range(0, 15),
                        1 => r.range(16, 231),
                        2 => r.range(232, 255),
                        3 => 255,
                        4 => 256,
                        _ => r.range(0, 300),
                    });
                }
            }
            12..=13 => {
                v.push(*r.pick(&[38u32, 48]));
                v.push(2);
                let k = if r.chance(4, 5) { 3 } else { r.below(3) };
                for _ in 0..k {
                    v.push(match r.below(5) {
                        0 => 0,
                        1 => 255,
                        2 => 256,
                        3 => 9999,
                        _ => r.range(0, 255),
                    });
                }
            }
            14 => {
                v.push(*r.pick(&[38u32, 48]));
                if r.chance(1, 2) {
                    v.push(r.range(0, 9));
                }
            }
            _ => v.push(r.range(0, 120)),
        }
    }
    v
}

pub fn short_str(r: &mut Rng) -> String {
    let n = r.below(6);
    (0..n)
        .map(|_| *r.pick(&['t', 'i', ';', '\\', ']', ' ', 'é', '中', 'x', '7']))
        .collect()
}

/// A random listener-level call (weights by group) for a cols x lines screen.
/// `focus` selects a call family with high probability.
pub fn call(r: &mut Rng, cols: u32, lines: u32, focus: &str) -> Call {
    use Call::*;
    let fam: &str = if r.chance(3, 5) && focus != "any" {
        focus
    } else {
        *r.pick(&[
            "draw", "draw", "draw", "move", "move", "erase", "scroll", "ichdch", "sgr", "mode",
            "tabs", "save", "margins", "charset", "misc", "resize", "display",
        ])
    };
    match fam {
        "draw" => Draw(text(r, 6)),
        "move" => match r.below(14) {
            0 => CursorUp(param(r, lines)),
            1 => CursorDown(param(r, lines)),
            2 => CursorForward(param(r, cols)),
            3 => CursorBack(param(r, cols)),
            4 => CursorDown1(param(r, lines)),
            5 => CursorUp1(param(r, lines)),
            6 => CursorToColumn(param(r, cols)),
            7 => CursorToLine(param(r, lines)),
            8 | 9 => CursorPosition(param(r, lines), param(r, cols)),
            10 => Backspace,
            11 => CarriageReturn,
            12 => Tab,
            _ => Linefeed,
        },
        "erase" => match r.below(3) {
            0 => EraseInDisplay(*r.pick(&[None, Some(0), Some(1), Some(2), Some(3), Some(4), Some(5), Some(9999)])),
            1 => EraseInLine(*r.pick(&[None, Some(0), Some(1), Some(2), Some(3), Some(4), Some(5), Some(9999)])),
            _ => EraseCharacters(param(r, cols)),
        },
        "scroll" => match r.below(8) {
            0 | 1 => Index,
            2 => ReverseIndex,
            3 => Linefeed,
            4 | 5 => InsertLines(param(r, lines)),
            _ => DeleteLines(param(r, lines)),
        },
        "ichdch" => match r.below(2) {
            0 => InsertCharacters(param(r, cols)),
            _ => DeleteCharacters(param(r, cols)),
        },
        "sgr" => Sgr(sgr_list(r)),
        "mode" => {
            let (v, p) = mode_list(r);
            if r.chance(1, 2) {
                SetMode(v, p)
            } else {
                ResetMode(v, p)
            }
        }
        "tabs" => match r.below(4) {
            0 => SetTabStop,
            1 => ClearTabStop(*r.pick(&[None, Some(0), Some(3), Some(1), Some(2), Some(9999)])),
            _ => Tab,
        },
        "save" => {
            if r.chance(1, 2) {
                SaveCursor
            } else {
                RestoreCursor
            }
        }
        "margins" => SetMargins(param(r, lines), param(r, lines)),
        "charset" => match r.below(4) {
            0 => ShiftOut,
            1 => ShiftIn,
            _ => DefineCharset(
                r.pick(&["B", "0", "U", "V", "A", "K", ""]).to_string(),
                r.pick(&["(", ")", "(", ")", "*"]).to_string(),
            ),
        },
        "resize" => {
            let l = match r.below(4) {
                0 => None,
                _ => Some(r.range(1, lines + 2)),
            };
            let c = match r.below(4) {
                0 => None,
                _ => Some(r.range(1, cols + 2)),
            };
            Resize(l, c)
        }
        "display" => {
            if r.chance(2, 3) {
                Display
            } else {
                ClearDirty
            }
        }
        _ => match r.below(8) {
            0 => AlignmentDisplay,
            1 => Reset,
            2 => Bell,
            3 => SetTitle(short_str(r)),
            4 => SetIconName(short_str(r)),
            5 => ReportDeviceAttributes(param(r, 2)),
            6 => Display,
            _ => ClearDirty,
        },
    }
}

thread_local! {
    /// zero-padding width for the numeric parameters of the sequence being rendered (0 = none)
    static PAD: std::cell::Cell<usize> = std::cell::Cell::new(0);
}

fn num(v: u32) -> String {
    let w = PAD.with(|p| p.get());
    if w == 0 {
        v.to_string()
    } else {
        format!("{:0w$}", v, w = w)
    }
}

fn ps(o: &O) -> String {
    match o {
        Some(v) => num(*v),
        None => String::new(),
    }
}

fn join(v: &[u32]) -> String {
    v.iter().map(|x| num(*x)).collect::<Vec<_>>().join(";")
}

/// The escape-sequence spelling of a call, when it has one.
pub fn render(r: &mut Rng, c: &Call) -> Option<String> {
    // one sequence in ten spells its numbers with leading zeros (`CSI 00001 M`, `CSI 0000000002;05 r`)
    let w = if r.chance(1, 10) { *r.pick(&[2usize, 3, 4, 5, 6, 10, 25]) } else { 0 };
    PAD.with(|p| p.set(w));
    let out = render0(r, c);
    PAD.with(|p| p.set(0));
    // one CSI sequence in ten is respelled: a surplus parameter, a trailing separator, or a private
    // marker the operation does not use (the dispatch table decides what these mean)
    match out {
        Some(s) if r.chance(1, 10) => Some(respell(r, s)),
        o => o,
    }
}

/// The plain spelling (no padding, no respelling); used for the seeds of the coverage-guided search.
pub fn render_plain(r: &mut Rng, c: &Call) -> Option<String> {
    PAD.with(|p| p.set(0));
    render0(r, c)
}

fn respell(r: &mut Rng, s: String) -> String {
    let cs: Vec<char> = s.chars().collect();
    let intro = if cs.len() >= 3 && cs[0] == '\x1b' && cs[1] == '[' {
        2
    } else if cs.len() >= 2 && cs[0] == '\u{9b}' {
        1
    } else {
        return s;
    };
    let fin = cs[cs.len() - 1];
    if !fin.is_ascii_alphabetic() && fin != '@' {
        return s;
    }
    let head: String = cs[..intro].iter().collect();
    let body: String = cs[intro..cs.len() - 1].iter().collect();
    match r.below(4) {
        0 => format!("{}{};{}{}", head, body, *r.pick(&[0u32, 1, 2, 3, 5, 7, 9999]), fin),
        1 => format!("{}{};{}", head, body, fin),
        2 => {
            if body.starts_with('?') {
                format!("{}{}{}", head, &body[1..], fin)
            } else {
                format!("{}?{}{}", head, body, fin)
            }
        }
        _ => format!("{}{};{};{}{}", head, body, r.below(4), r.below(10), fin),
    }
}

fn render0(r: &mut Rng, c: &Call) -> Option<String> {
    use Call::*;
    let csi = if r.chance(4, 5) { "\x1b[" } else { "\u{9b}" };
    let f1 = |o: &O, fin: &str| Some(format!("{}{}{}", csi, ps(o), fin));
    match c {
        AlignmentDisplay => Some("\x1b#8".into()),
        Reset => Some("\x1bc".into()),
        Index => Some("\x1bD".into()),
        Linefeed => Some((*r.pick(&["\n", "\x0b", "\x0c", "\x1bE"])).into()),
        ReverseIndex => Some("\x1bM".into()),
        SetTabStop => Some("\x1bH".into()),
        SaveCursor => Some("\x1b7".into()),
        RestoreCursor => Some("\x1b8".into()),
        ShiftOut => Some("\x0e".into()),
        ShiftIn => Some("\x0f".into()),
        Bell => Some("\x07".into()),
        Backspace => Some("\x08".into()),
        Tab => Some("\t".into()),
        CarriageReturn => Some("\r".into()),
        Draw(t) => {
            let t: String = t
                .chars()
                .filter(|c| !matches!(*c as u32, 0x07..=0x0f | 0x1b | 0x9b | 0x9d))
                .collect();
            Some(t)
        }
        InsertCharacters(o) => f1(o, "@"),
        CursorUp(o) => f1(o, "A"),
        CursorDown(o) => f1(o, if r.chance(1, 2) { "B" } else { "e" }),
        CursorForward(o) => f1(o, if r.chance(1, 2) { "C" } else { "a" }),
        CursorBack(o) => f1(o, "D"),
        CursorDown1(o) => f1(o, "E"),
        CursorUp1(o) => f1(o, "F"),
        CursorToColumn(o) => f1(o, "G"),
        CursorPosition(a, b) => {
            let fin = if r.chance(1, 2) { "H" } else { "f" };
            match (a, b) {
                (None, None) => Some(format!("{}{}", csi, fin)),
                (a, None) => Some(format!("{}{}{}", csi, ps(a), fin)),
                (a, b) => Some(format!("{}{};{}{}", csi, ps(a), ps(b), fin)),
            }
        }
        EraseInDisplay(o) => f1(o, "J"),
        EraseInLine(o) => f1(o, "K"),
        InsertLines(o) => f1(o, "L"),
        DeleteLines(o) => f1(o, "M"),
        DeleteCharacters(o) => f1(o, "P"),
        EraseCharacters(o) => f1(o, "X"),
        ReportDeviceAttributes(o) => f1(o, "c"),
        CursorToLine(o) => f1(o, "d"),
        ClearTabStop(o) => f1(o, "g"),
        SetMode(v, p) => Some(format!("{}{}{}h", csi, if *p { "?" } else { "" }, join(v))),
        ResetMode(v, p) => Some(format!("{}{}{}l", csi, if *p { "?" } else { "" }, join(v))),
        Sgr(v) => Some(format!("{}{}m", csi, join(v))),
        SetTitle(t) => {
            let t: String = t.chars().filter(|c| *c != '\x07' && *c != '\u{9c}' && *c != '\x1b').collect();
            Some(format!("\x1b]2;{}\x07", t))
        }
        SetIconName(t) => {
            let t: String = t.chars().filter(|c| *c != '\x07' && *c != '\u{9c}' && *c != '\x1b').collect();
            Some(format!("\x1b]1;{}\x07", t))
        }
        SetMargins(a, b) => match (a, b) {
            (None, None) => Some(format!("{}r", csi)),
            (a, None) => Some(format!("{}{}r", csi, ps(a))),
            (a, b) => Some(format!("{}{};{}r", csi, ps(a), ps(b))),
        },
        DefineCharset(code, mode) => {
            // an empty code would leave the recogniser waiting for the designator's final character
            if (mode == "(" || mode == ")") && code.chars().count() == 1 {
                Some(format!("\x1b{}{}", mode, code))
            } else {
                None
            }
        }
        Resize(..) | Display | ClearDirty => None,
    }
}

/// Garbled / truncated / hostile fragments for the malformed stream.
pub fn garbage(r: &mut Rng) -> String {
    let frags: &[&str] = &[
        "\x1b", "\x1b[", "\u{9b}", "\x1b]", "\u{9d}", "\x1b#", "\x1b%", "\x1b(", "\x1b)", "\x18",
        "\x1a", "?", ";", "$", " ", ">", "0", "1", "9", "99999999999999999999999999999999", "\x07",
        "\u{9c}", "\x1b\\", "\\", "m", "H", "h", "l", "r", "K", "J", "@", "P", "X", "L", "M", "G",
        "d", "A", "B", "C", "D", "E", "F", "g", "c", "\x08", "\t", "\n", "\r", "\x0e", "\x0f", "a",
        "中", "\u{301}", "\u{200b}", "\u{80}", "\u{90}", "\u{9f}", "\u{85}", "\x7f", "\0", "R", "P",
        "p", "0;", "2;", "1;", "10;", "[", "]", "8", "7", "c", "Z", "=", "<", "\x1b[?", "\x1b[38;5;",
        "\x1b[3", "5", "2", "\x1b%@", "\x1b%G", "\x1b%8", "\u{e9}", "\u{100}",
    ];
    let n = r.range(1, 8);
    let mut s = String::new();
    for _ in 0..n {
        s.push_str(*r.pick(frags));
    }
    s
}

pub fn geometry(r: &mut Rng) -> (u32, u32) {
    match r.below(20) {
        0 => (1, 1),
        1 => (1, r.range(1, 5)),
        2 => (r.range(1, 6), 1),
        3 => (80, 24),
        4 => (r.range(7, 140), r.range(7, 40)),
        5 => (r.range(9, 20), r.range(2, 5)),
        _ => (r.range(2, 6), r.range(2, 6)),
    }
}

pub fn utf8_garbage(r: &mut Rng) -> Vec<u8> {
    let frags: &[&[u8]] = &[
        b"a", b"\xc3\xa9", b"\xe4\xb8\xad", b"\xf0\x9f\x98\x80", b"\xc3", b"\xe4", b"\xe4\xb8",
        b"\xf0", b"\xf0\x9f", b"\xf0\x9f\x98", b"\x80", b"\xbf", b"\xc0\xaf", b"\xc1\xbf",
        b"\xe0\x80\x80", b"\xe0\x9f\xbf", b"\xed\xa0\x80", b"\xed\xbf\xbf", b"\xf4\x90\x80\x80",
        b"\xf5", b"\xff", b"\xfe", b"\xef\xbb\xbf", b"\xf8\x88\x80\x80\x80", b"\xe2\x9e", b"\x9c",
        b"\x1b[", b"1;2H", b"\x1b]0;t\x07", b"\xc2\x9b", b"\xc2\x9d", b"\xc2\x9c", b"\xcc\x81",
        b"\x0e", b"\x0f", b"\n", b"\r", b"\x1b%@", b"\x1b%G", b"\x1b%8", b"\xff\xfe", b"\xfe\xff",
        b"\xc4\x80", b"\xc3\xbf", b"\xef\xbb\xbfA",
    ];
    let n = r.range(1, 6);
    let mut v = vec![];
    for _ in 0..n {
        v.extend_from_slice(*r.pick(frags));
    }
    v
}

/// Split a char string into k random chunks (some possibly empty).
pub fn split_chars(r: &mut Rng, s: &str) -> Vec<String> {
    let cs: Vec<char> = s.chars().collect();
    let mut out = vec![];
    let mut i = 0;
    while i < cs.len() {
        let n = match r.below(6) {
            0 => 0,
            1 | 2 => 1,
            3 => 2,
            _ => r.range(1, 12),
        } as usize;
        let j = (i + n).min(cs.len());
        out.push(cs[i..j].iter().collect());
        i = j;
    }
    out
}

pub fn split_bytes(r: &mut Rng, b: &[u8]) -> Vec<Vec<u8>> {
    let mut out = vec![];
    let mut i = 0;
    while i < b.len() {
        let n = match r.below(6) {
            0 => 0,
            1 | 2 => 1,
            3 => 2,
            _ => r.range(1, 12),
        } as usize;
        let j = (i + n).min(b.len());
        out.push(b[i..j].to_vec());
        i = j;
    }
    out
}

/// The general session generator.  `focus` biases the call family,
/// `via` = 0 API only, 1 parser only (where a spelling exists), 2 mixed.
pub fn session(r: &mut Rng, id: String, focus: &str, nops: u32, via: u32, bytes: bool) -> Session {
    session_opts(r, id, focus, nops, via, bytes, true)
}

/// `garbage = false`: only complete sequences, so the recogniser is in its
/// ground state between ops.
pub fn session_opts(r: &mut Rng, id: String, focus: &str, nops: u32, via: u32, bytes: bool, garbage_ok: bool) -> Session {
    let (mut cols, mut lines) = geometry(r);
    let (c0, l0) = (cols, lines);
    let mut ops = vec![];
    // optional pre-fill so that edits are visible
    if r.chance(2, 3) {
        ops.push(Op::Api(Call::AlignmentDisplay));
        if r.chance(1, 2) {
            for y in 0..lines.min(8) {
                ops.push(Op::Api(Call::CursorPosition(Some(y + 1), Some(1))));
                let t: String = (0..cols.min(12))
                    .map(|x| char::from_u32('a' as u32 + (y * 7 + x) % 26).unwrap())
                    .collect();
                ops.push(Op::Api(Call::Draw(t)));
            }
        }
    }
    for _ in 0..nops {
        let c = call(r, cols, lines, focus);
        if let Call::Resize(l, c2) = &c {
            lines = l.unwrap_or(lines);
            cols = c2.unwrap_or(cols);
        }
        if let Call::SetMode(v, true) = &c {
            if v.contains(&3) {
                cols = 132;
            }
        }
        let use_parser = match via {
            0 => false,
            1 => true,
            _ => r.chance(1, 2),
        };
        if garbage_ok && r.chance(1, 25) {
            let g = garbage(r);
            push_feed(r, &mut ops, &g, bytes);
            continue;
        }
        if use_parser {
            if let Some(s) = render(r, &c) {
                push_feed(r, &mut ops, &s, bytes);
                continue;
            }
        }
        ops.push(Op::Api(c));
    }
    Session { columns: c0, lines: l0, bytes, events_only: false, id, ops }
}

pub fn push_feed(r: &mut Rng, ops: &mut Vec<Op>, s: &str, bytes: bool) {
    if bytes {
        let b = s.as_bytes();
        if r.chance(1, 3) {
            for ch in split_bytes(r, b) {
                ops.push(Op::FeedB(ch));
            }
        } else {
            ops.push(Op::FeedB(b.to_vec()));
        }
    } else if r.chance(1, 3) {
        for ch in split_chars(r, s) {
            ops.push(Op::Feed(ch));
        }
    } else {
        ops.push(Op::Feed(s.to_string()));
    }
}
